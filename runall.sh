#!/bin/bash
# runs every claimed check (tier $1, default quick) on the current tree, reports, validates evidence
tier=${1:-quick}
cd "$(dirname "$(readlink -f "$0")")"
ids=$(python3 -c "import json;print(' '.join(c['property_id'] for c in json.load(open('MANIFEST.json'))['checks']))")
fail=0
for id in $ids; do
  s=$(date +%s); out=$(./check $id --tier $tier 2>&1); rc=$?; e=$(date +%s)
  echo "$id rc=$rc $((e-s))s $(echo "$out" | grep -E '^(OK|VIOLATION|INCONCLUSIVE|KNOWN)' | cut -c1-150 | tr '\n' ' ')"
  [ $rc -ne 0 ] && fail=1
done
python3-vt validate.py | tail -1
exit $fail
