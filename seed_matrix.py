#!/usr/bin/env python3
"""seed_matrix.py [--all-checks] [--tier quick]: applies every /verif/seeded/*/patch.diff to /repo in turn, runs the
property's own check (or every claimed check), reverts, and writes seeded/RESULTS.md + seeded/RESULTS.json."""
import json, os, re, subprocess, sys, time
env = dict(os.environ, GOFLAGS="-mod=mod", GOPROXY="off", GOSUMDB="off", GOTOOLCHAIN="local")
def sh(cmd, cwd=None):
    r = subprocess.run(cmd, shell=True, cwd=cwd, env=env, stdout=subprocess.PIPE, stderr=subprocess.STDOUT, text=True)
    return r.returncode, r.stdout
REPO = os.environ.get("VERIF_REPO_DIR", "/repo")
HERE = os.path.dirname(os.path.abspath(__file__))
if REPO != "/repo":
    # background mode on a snapshot: point this copy of the harness at the snapshot of the repository
    print(sh("go mod edit -replace github.com/go-kid/ioc=%s" % REPO, HERE + "/harness"))
allc = "--all-checks" in sys.argv
tier = sys.argv[sys.argv.index("--tier")+1] if "--tier" in sys.argv else "quick"
claimed = [c["property_id"] for c in json.load(open(HERE + "/MANIFEST.json"))["checks"]]
assert sh("git -C " + REPO + " status --short")[1].strip() == "", "repo dirty"
head = sh("git -C " + REPO + " rev-parse --short HEAD")[1].strip()
rows = []
for name in sorted(os.listdir(HERE + "/seeded")):
    d = HERE + "/seeded/" + name
    if not os.path.exists(d + "/patch.diff"): continue
    prop = name.split("-")[0]
    rc, out = sh("git -C %s apply --3way %s/patch.diff || git -C %s apply %s/patch.diff" % (REPO, d, REPO, d))
    sh("git -C " + REPO + " reset -q")
    row = {"seed": name, "property": prop, "applies": rc == 0, "results": {}}
    if rc == 0:
        b, _ = sh("go build ./...", REPO)
        row["builds"] = b == 0
        checks = claimed if allc else [prop]
        for c in checks:
            t0 = time.time(); rc2, out2 = sh("./check %s --tier %s" % (c, tier), HERE)
            row["results"][c] = rc2
    sh("git -C %s checkout -- . ; git -C %s clean -fdq unittest/seeded" % (REPO, REPO))
    rows.append(row); print(name, row["applies"], row["results"], flush=True)
json.dump({"repo_head": head, "tier": tier, "rows": rows}, open(HERE + "/seeded/RESULTS.json", "w"), indent=1)
with open(HERE + "/seeded/RESULTS.md", "w") as f:
    f.write("# Seeded changes vs. checks (repo HEAD %s, tier %s)\n\nexit 1 = VIOLATION reported, 0 = silent, 2 = inconclusive\n\n| seed | breaks | own check | other checks that also report |\n|---|---|---|---|\n" % (head, tier))
    for r in rows:
        own = r["results"].get(r["property"], "-")
        others = [c for c, v in r["results"].items() if c != r["property"] and v == 1]
        f.write("| %s | %s | %s | %s |\n" % (r["seed"], r["property"], {1: "caught", 0: "MISSED", 2: "inconclusive"}.get(own, own) if r["applies"] else "patch does not apply", " ".join(others)))
print("caught %d / %d" % (sum(1 for r in rows if r["results"].get(r["property"]) == 1), len(rows)))
