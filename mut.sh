#!/bin/bash
# usage: mut.sh <patchfile|-e sedexpr file> -- <check ids...> ; applies a mutation to /repo, verifies repo tests, runs checks, reverts.
set -u
cd /repo
if [ "$1" = "-e" ]; then sed -i "$2" "$3"; shift 3; else git apply "$1" || exit 3; shift; fi
shift # --
git diff --stat | tail -1
export GOFLAGS=-mod=mod GOPROXY=off GOSUMDB=off GOTOOLCHAIN=local
if go build ./... 2>&1 | tail -3 | grep . ; then echo "MUTANT DOES NOT BUILD"; git checkout -- .; exit 3; fi
go test -count=1 ./... 2>&1 | grep -E "^(FAIL|---|ok)" | grep -v "^ok" | head
cd /verif
for id in "$@"; do
  out=$(./check $id --tier ${TIER:-quick} 2>&1); rc=$?
  echo "== $id rc=$rc: $(echo "$out" | grep -E "^(VIOLATION|OK|INCONCLUSIVE|KNOWN)" | head -3 | tr '\n' ' ')"
  if [ -n "${SHOW:-}" ]; then echo "$out" | grep -B2 -A12 "failed after\|FAIL:" | head -60; fi
done
git -C /repo checkout -- .
git -C /repo status --short
