#!/usr/bin/env python3
"""keep_seed.py <seed-dir> [--checks C01,C03] : confirm a seeded change in a scratch worktree and file it under /verif/seeded/<id>/.
Confirms: patch applies on /repo HEAD, builds, repo test suite passes with it, demo fails with it and passes without it.
Then runs the named checks (default: the property's own) against /repo with the patch applied and records which caught it."""
import json, os, re, shutil, subprocess, sys, time
env = dict(os.environ, GOFLAGS="-mod=mod", GOPROXY="off", GOSUMDB="off", GOTOOLCHAIN="local")
def sh(cmd, cwd=None):
    r = subprocess.run(cmd, shell=True, cwd=cwd, env=env, stdout=subprocess.PIPE, stderr=subprocess.STDOUT, text=True)
    return r.returncode, r.stdout
d = os.path.abspath(sys.argv[1]); name = os.path.basename(d); prop = name.split("-")[0]
checks = [prop]
tier = "quick"
for i, a in enumerate(sys.argv):
    if a == "--checks": checks = sys.argv[i+1].split(",")
    if a == "--tier": tier = sys.argv[i+1]
wt = "/tmp/seedconfirm-%s" % name
sh("git -C /repo worktree remove --force %s" % wt); shutil.rmtree(wt, ignore_errors=True)
rc, out = sh("git -C /repo worktree add --detach %s HEAD" % wt); assert rc == 0, out
res = {"seed": name, "property": prop, "repo_head": sh("git -C /repo rev-parse --short HEAD")[1].strip()}
try:
    demo = open(os.path.join(d, "demo_test.go")).read() if os.path.exists(os.path.join(d, "demo_test.go")) else None
    m = re.search(r"unittest/[A-Za-z0-9_/.-]+_test\.go", demo or "")
    demo_path = m.group(0) if m else "unittest/seeded/%s_test.go" % name.lower().replace("-", "_")
    race = "-race " if demo and re.search(r"go test -race", demo) else ""
    if demo:
        os.makedirs(os.path.join(wt, os.path.dirname(demo_path)), exist_ok=True)
        open(os.path.join(wt, demo_path), "w").write(demo)
        rc, out = sh("go test %s-count=1 ./%s/" % (race, os.path.dirname(demo_path)), wt)
        res["demo_without_change"] = "pass" if rc == 0 else "FAIL"
    rc, out = sh("git apply --3way %s/patch.diff || git apply %s/patch.diff" % (d, d), wt)
    res["applies"] = rc == 0
    if rc != 0:
        print(json.dumps(res)); sys.exit(3)
    sh("git reset -q", wt)
    # store the patch as it applies on the current HEAD
    if demo: os.rename(os.path.join(wt, demo_path), "/tmp/_demo.go")
    rc, patch = sh("git diff", wt)
    if demo: os.rename("/tmp/_demo.go", os.path.join(wt, demo_path))
    rc, out = sh("go build ./...", wt); res["builds"] = rc == 0
    if demo:
        rc, out = sh("go test %s-count=1 ./%s/" % (race, os.path.dirname(demo_path)), wt)
        res["demo_with_change"] = "pass" if rc == 0 else "FAIL"
        os.remove(os.path.join(wt, demo_path))
    rc, out = sh("go test -count=1 ./... 2>&1 | grep -E '^(FAIL|--- FAIL|ok)' | grep -v '^ok' | head -5", wt)
    res["repo_suite_with_change"] = "pass" if not out.strip() else "FAIL: " + out.strip()
finally:
    sh("git -C /repo worktree remove --force %s" % wt); shutil.rmtree(wt, ignore_errors=True)
ok = res.get("applies") and res.get("builds") and res.get("repo_suite_with_change") == "pass" and res.get("demo_with_change") == "FAIL" and res.get("demo_without_change") == "pass"
res["confirmed"] = bool(ok)
if not ok:
    print("NOT CONFIRMED", json.dumps(res, indent=1)); sys.exit(1)
# run checks against /repo with the patch applied
open("/tmp/_p.diff", "w").write(patch)
assert sh("git -C /repo status --short")[1].strip() == "", "repo dirty"
rc, out = sh("git -C /repo apply /tmp/_p.diff"); assert rc == 0, out
caught = {}
try:
    for c in checks:
        rc, out = sh("./check %s --tier %s" % (c, tier), "/verif")
        v = re.findall(r"^VIOLATION.*$", out, re.M)
        caught[c] = {"exit": rc, "violation_lines": v[:2]}
finally:
    sh("git -C /repo checkout -- ."); 
res["checks_run"] = caught
res["caught_by"] = [c for c, v in caught.items() if v["exit"] == 1]
dst = "/verif/seeded/%s" % name
os.makedirs(dst, exist_ok=True)
open(os.path.join(dst, "patch.diff"), "w").write(patch)
if demo: open(os.path.join(dst, "demo_test.go"), "w").write(demo)
notes = open(os.path.join(d, "notes.md")).read() if os.path.exists(os.path.join(d, "notes.md")) else ""
if notes: open(os.path.join(dst, "notes.md"), "w").write(notes)
meta = {"breaks_property": prop, "needs_to_manifest": (re.search(r"(?is)(needs?|manifest)[^\n]*\n?.{0,600}", notes).group(0).strip() if re.search(r"(?i)needs|manifest", notes) else "see notes.md"),
        "origin": "independent sub-agent given only the property text and a scratch worktree" if "revert" not in name else "reverse of a fix: commit",
        "confirmed": res, "what_i_ran": ["git apply patch.diff (scratch worktree of /repo HEAD)", "go build ./...", "go test -count=1 ./... (suite passes)", "demo_test.go fails with the change, passes without", "./check <id> --tier %s against /repo with the patch applied, then git checkout -- ." % tier]}
json.dump(meta, open(os.path.join(dst, "meta.json"), "w"), indent=1)
print(name, "confirmed; caught_by", res["caught_by"], {c: v["exit"] for c, v in caught.items()})
