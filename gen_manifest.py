#!/usr/bin/env python3
"""Regenerates MANIFEST.json from checks_table.py + manifest_meta.py (so the two never drift)."""
import json, os, sys
ROOT = os.path.dirname(os.path.abspath(__file__))
sys.path.insert(0, ROOT)
from checks_table import CHECKS
from manifest_meta import META, HOOK_COMMITS, PENDING

props = [json.loads(l)["id"] for l in open(os.path.join(ROOT, "properties.jsonl"))]
checks = []
for pid in props:
    if pid not in CHECKS or pid not in META:
        continue
    m = META[pid]
    checks.append({
        "property_id": pid,
        "quick_cmd": "./check %s --tier quick" % pid,
        "thorough_cmd": "./check %s --tier thorough" % pid,
        "evidence_file": "/verif/evidence/%s.json" % pid,
        "replay_cmd_template": "./check %s --replay {path}" % pid,
        "engine": "rapid-harness",
        "level_claimed": {"category": CHECKS[pid]["level"], "text": m["text"], "design_ref": m["design_ref"]},
        "level_note": m["note"],
        "technique": m["technique"],
    })
na = [{"property_id": pid, "reason": PENDING.get(pid, "check not built yet")} for pid in props if pid not in CHECKS or pid not in META]
man = {
    "version": 1,
    "setup_cmd": "./setup.sh",
    "hooks": {
        "guard": "verif",
        "enable": "go test -tags verif (harness module /verif/harness, replace github.com/go-kid/ioc => /repo)",
        "baseline_off_cmd": "cd /repo && GOFLAGS=-mod=mod GOPROXY=off go test -json -vet=off -count=1 -timeout 25m ./...",
        "source_commits": HOOK_COMMITS,
        "add_only": True,
    },
    "engines": [{
        "name": "rapid-harness", "path": "/verif/harness",
        "serves_properties": [c["property_id"] for c in checks],
        "kind_free_text": "Go test packages (one per property) using pgregory.net/rapid v1.3.0 generators and state machines, exhaustive small-scope enumerations, porcupine linearizability checking and bounded native go fuzzing; driven by /verif/check",
    }],
    "checks": checks,
    "not_applicable": na,
    "notes": "Every claimed property is decided by generated-input search against an explicit oracle (property-based testing / fuzzing). See DESIGN.md.",
}
json.dump(man, open(os.path.join(ROOT, "MANIFEST.json"), "w"), indent=1)
print("claimed:", [c["property_id"] for c in checks], "pending:", [n["property_id"] for n in na])
