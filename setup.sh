#!/bin/sh
# Offline setup: warm the Go build cache for the harness (plain and -race builds).
set -e
cd "$(dirname "$0")/harness"
export GOFLAGS=-mod=mod GOPROXY=off GOSUMDB=off GOTOOLCHAIN=local
[ -f go.sum ] || cp /repo/go.sum go.sum
go vet -tags verif ./... >/dev/null 2>&1 || true
go test -tags verif -count=1 -run '^$' ./... >/dev/null
exit 0
