#!/usr/bin/env python3
"""mutsweep.py [--files f1,f2] [--limit N] : systematic single-line mutation sweep over the anchored files of go-kid/ioc.

For every mutant that still builds AND passes the repository's own test suite, the quick checks of the
properties anchored in that file are run; survivors (no check reports a violation) are listed in
mutsweep/RESULTS.md for manual review (many survivors are equivalent or irrelevant mutants: logging, error texts).
Operates on $VERIF_REPO_DIR (default /repo); in snapshot mode the harness copy is re-pointed at that directory.
"""
import json, os, re, subprocess, sys, time

HERE = os.path.dirname(os.path.abspath(__file__))
REPO = os.environ.get("VERIF_REPO_DIR", "/repo")
env = dict(os.environ, GOFLAGS="-mod=mod", GOPROXY="off", GOSUMDB="off", GOTOOLCHAIN="local")


def sh(cmd, cwd=None, timeout=None):
    try:
        r = subprocess.run(cmd, shell=True, cwd=cwd, env=env, stdout=subprocess.PIPE, stderr=subprocess.STDOUT, text=True, timeout=timeout)
        return r.returncode, r.stdout
    except subprocess.TimeoutExpired:
        return 124, "timeout"


if REPO != "/repo":
    sh("go mod edit -replace github.com/go-kid/ioc=%s" % REPO, HERE + "/harness")

props = [json.loads(l) for l in open(HERE + "/properties.jsonl")]
ALL = [p["id"] for p in props]
file_props = {}
for p in props:
    for f in p["anchors"]["files"]:
        file_props.setdefault(f, []).append(p["id"])
# a few files the anchors do not list but the properties depend on
file_props.setdefault("util/reflectx/set_value.go", []).append("C17")
file_props.setdefault("component_definition/base.go", []).extend(["C01", "C02"])

args = sys.argv[1:]
only = None
limit = None
from_log = None
for i, a in enumerate(args):
    if a == "--from-log":
        from_log = args[i + 1]  # re-check only the survivors listed in an earlier sweep's log
for i, a in enumerate(args):
    if a == "--files":
        only = args[i + 1].split(",")
    if a == "--limit":
        limit = int(args[i + 1])

OPS = [
    (r"==", "!="), (r"!=", "=="), (r"&&", "||"), (r"\|\|", "&&"),
    (r" < ", " <= "), (r" > ", " >= "), (r" <= ", " < "), (r" >= ", " > "),
    (r"\bif !", "if "), (r"\bcontinue\b", "break"), (r"\bbreak\b", "continue"),
    (r"return nil, err\b", "return nil, nil"), (r"return err\b", "return nil"),
    (r"\btrue\b", "false"), (r"\bfalse\b", "true"),
    (r"len\((\w+)\) == 0", r"len(\1) == 1"), (r"len\((\w+)\) != 0", r"len(\1) > 1"),
    (r"\[0\]", "[len(metas)-1]"),
]
DELETE = re.compile(r"^\s*(\w[\w.]*\.(Delete|Remove|Store|Put|Wait|Lock|Unlock|dependOn|Set|SetArg|AddSingleton|AddSingletonFactory|SetConfiguration)\(.*\)|wg\.\w+\(.*\)|\w+ = append\(.*\))\s*$")
SKIP = re.compile(r"logger\(\)|Tracef|Debugf|Infof|Warnf|Errorf\(|Pref\(|^\s*//|errors\.(Errorf|Wrapf|WithMessage)|^\s*import|^\s*\"|^\s*package")


def mutants(path):
    lines = open(os.path.join(REPO, path)).read().split("\n")
    depth_func = False
    for i, line in enumerate(lines):
        if line.startswith("func "):
            depth_func = True
        if not depth_func or SKIP.search(line) or not line.strip():
            continue
        for pat, rep in OPS:
            for m in re.finditer(pat, line):
                new = line[:m.start()] + re.sub(pat, rep, line[m.start():m.end()]) + line[m.end():]
                if new != line:
                    yield i, line, new, "%s -> %s" % (pat, rep)
        if DELETE.match(line):
            yield i, line, re.sub(r"\S.*", "_ = 0 // deleted: " + line.strip().replace("\\", ""), line, count=1), "delete statement"


def main():
    os.makedirs(HERE + "/mutsweep", exist_ok=True)
    assert sh("git -C %s status --short" % REPO)[1].strip() == "", "repo dirty"
    files = sorted(f for f in file_props if f.endswith(".go") and not f.endswith("_test.go") and os.path.exists(os.path.join(REPO, f)))
    if only:
        files = [f for f in files if f in only]
    rows = []
    n = 0
    t0 = time.time()
    wanted = None
    if from_log:
        wanted = set()
        for line in open(from_log):
            m = re.match(r"(\S+):(\d+) (.*?)\s+SURVIVED", line)
            if m:
                wanted.add((m.group(1), int(m.group(2)), m.group(3).strip()))
        files = [f for f in files if any(w[0] == f for w in wanted)]
    for f in files:
        src = open(os.path.join(REPO, f)).read()
        for (i, old, new, op) in mutants(f):
            if limit and n >= limit:
                break
            if wanted is not None and (f, i + 1, op) not in wanted:
                continue
            lines = src.split("\n")
            lines[i] = new
            open(os.path.join(REPO, f), "w").write("\n".join(lines))
            try:
                rc, out = sh("go build ./... && go vet ./%s/ 2>&1 | grep -v '^#' | head -3" % os.path.dirname(f), REPO, 120)
                if rc != 0 or "declared and not used" in out or "imported and not used" in out:
                    continue
                rc, out = sh("go test -count=1 ./... 2>&1 | grep -E '^(FAIL|--- FAIL|panic)' | head -3", REPO, 300)
                if out.strip():
                    continue  # the repository's own tests notice it
                n += 1
                res = {}
                order = sorted(set(file_props[f]))
                if "--all-checks" in args:
                    order += [c for c in ALL if c not in order]
                for c in order:
                    rc2, out2 = sh("./check %s --tier quick" % c, HERE, 900)
                    res[c] = rc2
                    if rc2 == 1 or (rc2 == 2 and "--all-checks" in args):
                        break  # one alarm is enough to call it killed (a check that cannot finish - a hang - counts too in the all-checks pass)
                killed = any(v == 1 for v in res.values()) or ("--all-checks" in args and any(v == 2 for v in res.values()))
                rows.append({"file": f, "line": i + 1, "op": op, "old": old.strip(), "new": new.strip(), "results": res, "killed": killed})
                print("%s:%d %-22s %s %s" % (f, i + 1, op, "KILLED" if killed else "SURVIVED", res), flush=True)
            finally:
                open(os.path.join(REPO, f), "w").write(src)
    tag = "-recheck" if from_log else ""
    json.dump(rows, open(HERE + "/mutsweep/RESULTS%s.json" % tag, "w"), indent=1)
    with open(HERE + "/mutsweep/RESULTS%s.md" % tag, "w") as fh:
        k = sum(1 for r in rows if r["killed"])
        fh.write("# Mutation sweep (mutants that build and pass the repository's tests): %d, killed by the quick checks: %d, survived: %d (%.0f min)\n\n" % (len(rows), k, len(rows) - k, (time.time() - t0) / 60))
        fh.write("## Survivors\n\n| file:line | operator | original | mutated | checks run |\n|---|---|---|---|---|\n")
        for r in rows:
            if not r["killed"]:
                fh.write("| %s:%d | %s | `%s` | `%s` | %s |\n" % (r["file"], r["line"], r["op"], r["old"].replace("|", "\\|"), r["new"].replace("|", "\\|"), " ".join(r["results"])))
    print("mutants %d killed %d" % (len(rows), sum(1 for r in rows if r["killed"])))


if __name__ == "__main__":
    main()
