#!/bin/bash
# usage: eval_seed.sh <seed-dir> [check ids...]   (default: the property in the dir name)
# Applies <seed-dir>/patch.diff to /repo, confirms build + repo tests pass, runs the demo (must fail), runs checks, reverts.
d=$1; shift
id=$(basename $d | cut -d- -f1)
checks="$@"; [ -z "$checks" ] && checks=$id
export GOFLAGS=-mod=mod GOPROXY=off GOSUMDB=off GOTOOLCHAIN=local
cd /repo || exit 3
git apply --3way $d/patch.diff 2>/dev/null || git apply $d/patch.diff || { echo "PATCH DOES NOT APPLY: $d"; git checkout -- . ; exit 3; }
git reset -q
if ! go build ./... 2>/dev/null; then echo "MUTANT DOES NOT BUILD"; git checkout -- .; exit 3; fi
t=$(go test -count=1 ./... 2>&1 | grep -E "^(FAIL|--- FAIL)" | head -3)
echo "[$(basename $d)] repo tests with mutant: ${t:-pass}"
if [ -z "$NODEMO" ] && [ -f $d/demo_test.go ]; then
  p=$(grep -m1 -oE "unittest/[A-Za-z0-9_/.-]+_test\.go" $d/demo_test.go | head -1)
  [ -z "$p" ] && p=unittest/seeded/$(echo $(basename $d) | tr 'A-Z-' 'a-z_')_test.go
  mkdir -p $(dirname $p); cp $d/demo_test.go $p
  r=$(go test -count=1 ./$(dirname $p)/ 2>&1 | tail -1); echo "   demo with mutant: $r"
  rm -f $p; rmdir $(dirname $p) 2>/dev/null
fi
cd /verif
for c in $checks; do
  out=$(./check $c --tier ${TIER:-quick} 2>&1); rc=$?
  echo "   check $c rc=$rc $(echo "$out" | grep -E "^(VIOLATION|OK|INCONCLUSIVE)" | head -2 | tr '\n' ' ' | cut -c1-220)"
done
git -C /repo checkout -- . ; git -C /repo clean -fdq unittest/seeded 2>/dev/null; git -C /repo status --short
