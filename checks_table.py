"""Per-property job tables for ./check. One entry per claimed property."""

def J(name, pkg, run, quick, thorough, shards_t=1, shards_q=1, **kw):
    d = {"name": name, "pkg": pkg, "run": run,
         "checks": {"quick": quick, "thorough": thorough},
         "shards": {"quick": shards_q, "thorough": shards_t}}
    d.update(kw)
    return d

CHECKS = {}

CHECKS["C12"] = {
    "level": "exploration",
    "jobs": [
        J("direct", "c12", "TestDirect", 4000, 150000, 4),
        J("runners", "c12", "TestRunners", 600, 20000, 4),
        J("loaders", "c12", "TestLoaders", 600, 20000, 2),
        J("postprocessors", "c12", "TestPostProcessors", 500, 15000, 4),
        J("loaders-reinit", "c12", "TestLoadersReinit", 800, 20000, 2),
        J("registered", "c12", "TestStaticRegisteredParticipants", None, None, env={"VERIF_GLOBAL_SETTINGS": "1"}),
    ],
    "assumptions": [
        "the contract does not require stability: equal Orders may appear in any relative order",
        "post-processor sequence is observed on a probe component created after all user post-processors",
    ],
}

CHECKS["C01"] = {
    "level": "exploration",
    "jobs": [
        J("identity", "c01", "TestIdentity", 3000, 60000, 12),
        J("scale", "c01", "TestScale", 6, 60, 4),
        J("history", "c01", "TestPostStartHistory", 800, 20000, 4, steps=30),
        J("known", "c01", "TestKnownStaleEarlyReferenceAfterFailedCreation", None, None),
        J("sametype", "c01", "TestSameTypeReplacement", None, None),
    ],
    "assumptions": [
        "a *T pointer field cannot hold a substitute object, so the wrapping post-processor only wraps node variants that no pointer-typed field references",
        "Go map iteration order inside the container (GetRegisteredComponents, property groups) is not controlled, only sampled",
    ],
}

CHECKS["C02"] = {
    "level": "exploration",
    "jobs": [
        J("cycles", "c02", "TestCycles", 2500, 60000, 10),
        J("exh2", "c02", "TestExhaustive2", None, None, replay_json=True),
        J("exh3", "c02", "TestExhaustive3", None, None, 4, replay_json=True),
        J("exh4", "c02", "TestExhaustive4", None, None, 16, tiers=["thorough"], replay_json=True),
        J("scale", "c02", "TestScale", 5, 60, 4),
        J("deepcycles", "c02", "TestStaticDeepCycles", None, None),
        J("registered", "c02", "TestStaticRegisteredCycle", None, None, env={"VERIF_GLOBAL_SETTINGS": "1"}),
    ],
    "assumptions": [
        "termination is decided up to a deterministic step budget (one creation per component name, creation nesting depth <= #components+40)",
        "the model takes self-exclusion and required/optional from the property statement; ties are accepted within the top-ranked set",
    ],
}

CHECKS["C06"] = {
    "level": "exploration",
    "jobs": [J("typedirected", "c06", "TestTypeDirected", 4000, 100000, 12), J("lazyretry", "c06", "TestLazyRetry", 800, 15000, 4), J("failingcandidates", "c06", "TestFailingCandidates", 1000, 20000, 4),
             J("lazyafterother", "c06", "TestLazyAfterOtherContainer", 600, 10000, 4),
             J("registered", "c06", "TestStaticRegisteredProviders", None, None, env={"VERIF_GLOBAL_SETTINGS": "1"})],
    "assumptions": [
        "func:\"M,returns=..\" values are drawn from plain non-numeric strings (result comparison after the container's literal parsing is then plain string equality)",
        "which of several equally admissible components a single-valued point receives is not asserted here (C08/C10)",
    ],
}
CHECKS["C08"] = {
    "level": "exploration",
    "jobs": [J("narrowing", "c08", "TestNarrowing", 4000, 100000, 12),
             J("narrowing-fmtlogger", "c08", "TestNarrowing", 800, 10000, 2, env={"VERIF_FMT_LOGGER": "1"}),
             J("lazyafterother", "c08", "TestLazyAfterOtherContainer", 600, 10000, 4)],  # every log argument is formatted (trace-level logger)
    "assumptions": [
        "several Primary components, or no Primary and several unnamed ones, form a tie: any member of that top rank is accepted",
        "qualifier lists are generated as either the single empty qualifier or a list of non-empty names",
    ],
}

CHECKS["C07"] = {
    "level": "exploration",
    "jobs": [
        J("byname", "c07", "TestByName", 4000, 100000, 12),
        J("duplicates", "c07", "TestDuplicateNames", 500, 5000, 1),
        J("namedcreationfails", "c07", "TestNamedCreationFails", 300, 3000, 1),
        J("lazyafterother", "c07", "TestLazyAfterOtherContainer", 600, 10000, 4),
        J("namedcycledecorated", "c07", "TestStaticNamedCycleDecorated", None, None),
    ],
    "assumptions": [
        "named points are generated on single-valued fields only (the property speaks about single-valued points)",
        "a duplicate registration may be rejected by panic or error, or one of the two may be dropped; only both being live under one name is a violation",
    ],
}

CHECKS["C04"] = {
    "level": "exploration",
    "jobs": [
        J("machine", "c04", "TestRegistryMachine", 3000, 80000, 8, steps=40),
        J("realstarts", "c04", "TestRealStartHistories", 1500, 40000, 8),
    ],
    "assumptions": [
        "the state machine issues only what the factory's lookup protocol can issue (cache lookup with early references allowed, then create; an exposing creation adds its early factory first); a creation that does not expose itself is never re-entered",
        "errors of nested creations and of early factories propagate (as in the real factory)",
    ],
}
CHECKS["C03"] = {
    "level": "exploration",
    "jobs": [
        J("random", "c03", "TestRandom", 2000, 50000, 8),
        J("randompure", "c03", "TestRandomPure", 2000, 50000, 8),
        J("exh2", "c03", "TestExhaustive2", None, None, 2),
        J("exh3q", "c03", "TestExhaustive3Quick", None, None, 2, tiers=["quick"]),
        J("exh3", "c03", "TestExhaustive3", None, None, 16, tiers=["thorough"]),
        J("exh3all", "c03", "TestExhaustive3All", None, None, 16, tiers=["thorough"], timeout={"thorough": 3600}),
        J("known", "c03", "TestKnownRetryAfterRefusedLazyCreation", None, None),
        J("known-stale", "c03", "TestKnownStaleEarlyReferenceAfterFailedCreation", None, None),
        J("retryinit", "c03", "TestRetryAfterInitFailure", 1500, 40000, 4),
        J("sametypecopy", "c03", "TestStaticSameTypeCopyOnCycle", None, None),
        J("preparation", "c03", "TestStaticSubstitutionDuringPreparation", None, None),
    ],
    "assumptions": [
        "a *T pointer field cannot hold a substitute, so only components consumed through interfaces are wrapped",
        "failure of start-up is always admissible for this property; the evidence reports the success/failure split",
    ],
}

CHECKS["C05"] = {
    "level": "exploration",
    "jobs": [
        J("lifecycle", "c05", "TestLifecycle", 2000, 50000, 8),
        J("lifecycle-fmtlogger", "c05", "TestLifecycle", 500, 8000, 2, env={"VERIF_FMT_LOGGER": "1"}),
        J("sparse", "c05", "TestLifecycleSparse", 2000, 50000, 8),
    ],
    "assumptions": [
        "'depends back' is computed over the observed injected edges of the run",
        "observing post-processors are dependency-free (a post-processor with wire fields pulls components into the pre-registration phase)",
    ],
}

CHECKS["C09"] = {
    "level": "fault_enumeration",
    "jobs": [
        J("single", "c09", "TestSingleFaults", 40, 1200, 12),
        J("pairs", "c09", "TestFaultPairs", 12, 300, 12),
    ],
    "assumptions": [
        "a fault 'fired' when the instrumented callback actually returned its error (recorded by the harness); structural faults (provider removed, key removed) are judged by the reference model",
        "hang = exceeding the deterministic creation budget",
    ],
}

CHECKS["C10"] = {
    "level": "exploration",
    "jobs": [
        J("populations", "c10", "TestPopulations", 500, 8000, 8),
        J("graphs", "c10", "TestGraphs", 400, 6000, 8),
        J("scanners", "c10", "TestScanners", 300, 5000, 8),
        J("duplicatepair", "c10", "TestDuplicatePair", 200, 3000, 2),
        J("runnerorder", "c10", "TestRunnerOrderOutcome", 200, 3000, 2),
        J("known", "c10", "TestKnownDecoratorOutcomeDependsOnEnumerationOrder", None, None),
    ],
    "assumptions": [
        "registration order and the registries' enumeration order are drawn explicitly (verif hook); Go map order inside the container and the goroutine schedule of the scan phase vary freely between the repeated runs and are thereby sampled, not controlled",
        "a lazy component that only a tied point may pull in may or may not be created; its own points are then compared only when populated in both runs",
    ],
}

CHECKS["C13"] = {
    "level": "fault_enumeration",
    "jobs": [J("runners", "c13", "TestRunners", 2500, 160000, 8), J("globalsettings", "c13", "TestGlobalSettingsRunner", 400, 10000, 2, env={"VERIF_GLOBAL_SETTINGS": "1"}),
             J("registered", "c13", "TestStaticRegisteredRunners", None, None, env={"VERIF_GLOBAL_SETTINGS": "1"})],
    "assumptions": ["the failing runner is chosen per case from all positions (each choice of failing runner, not only the first or last)"],
}
CHECKS["C14"] = {
    "level": "exploration",
    "jobs": [J("close", "c14", "TestClose", 2500, 200000, 8), J("slowcloser", "c14", "TestSlowCloser", None, None),
             J("serving", "c14", "TestCloseWhileRunnerServes", 300, 10000, 2),
             J("localtypes", "c14", "TestLocalTypesSharingAName", None, None),
             J("flakycloser", "c14", "TestFlakyCloser", 300, 8000, 2),
             J("globalsettings", "c14", "TestGlobalSettingsCloser", 300, 5000, 1, env={"VERIF_GLOBAL_SETTINGS": "1"})],
    "assumptions": [
        "the harness owns the finishing order of the Close calls through per-closer gates; gates are opened independently of whether the closer has been entered, so a sequential implementation is not rejected",
        "the only wall-clock bound (10 s) applies after every gate is open, i.e. when all work is provably finishable",
    ],
}

CHECKS["C19"] = {
    "level": "exploration",
    "jobs": [
        J("faithful", "c19", "TestFaithful", 6000, 200000, 8),
        J("totality", "c19", "TestTotality", 6000, 200000, 8),
        J("e2e-required", "c19", "TestEndToEndRequired", 800, 20000, 4),
        J("e2e-prop", "c19", "TestEndToEndProp", 500, 10000, 4),
        J("e2e-prop-emptykey", "c19", "TestEndToEndPropEmptyKey", 500, 10000, 2),
        J("e2e-data", "c19", "TestEndToEndDataIsNotTagText", 800, 20000, 4),
        J("concurrent", "c19", "TestParseConcurrently", 400, 10000, 2),
        J("seedcorpus", "c19", "FuzzTagParse", None, None),
        J("fuzz-faithful", "c19", "FuzzFaithful", None, None, tiers=["thorough"], fuzz={"target": "FuzzFaithful", "time": {"quick": "10s", "thorough": "120s"}}, timeout={"thorough": 900}),
        J("fuzz", "c19", "FuzzTagParse", None, None, tiers=["thorough"], fuzz={"target": "FuzzTagParse", "time": {"quick": "10s", "thorough": "180s"}}, timeout={"thorough": 900}),
    ],
    "assumptions": [
        "for strings whose brackets are not balanced 'top level' is undefined: only absence of panics and the required=false rule are asserted there",
        "argument names in the faithful generator are ASCII identifiers; items are non-empty unless the whole list is empty",
    ],
}

CHECKS["C11"] = {
    "level": "exploration",
    "jobs": [
        J("embedding", "c11", "TestEmbedding", 3000, 200000, 8),
        J("static", "c11", "TestStaticUnexportedEmbedding", None, None),
        J("diamond", "c11", "TestStaticDiamondEmbedding", None, None),
        J("shadowlazy", "c11", "TestStaticShadowAndLazy", None, None),
        J("embeddedprefixed", "c11", "TestStaticEmbeddedPrefixed", None, None),
        J("helperlevels", "c11", "TestStaticHelperLevels", None, None),
    ],
    "assumptions": [
        "run-time built structs (reflect.StructOf) can only embed under an exported field name; embedded types with unexported names are covered by static fixtures",
        "the element order of an injected slice is not part of the contract (compared as multisets)",
    ],
}

CHECKS["C15"] = {
    "level": "exploration",
    "jobs": [J("merge", "c15", "TestMerge", 2500, 60000, 8), J("reinitialize", "c15", "TestReinitialize", 800, 20000, 4),
             J("sharedlist", "c15", "TestSharedLoaderList", 300, 6000, 2),
             J("orderedloaders", "c15", "TestOrderedLoaders", 1500, 40000, 2),
             J("largefile", "c15", "TestLargeFile", None, None),
             J("overlappingruns", "c15", "TestOverlappingIocRuns", 60, 1500, 2, env={"VERIF_GLOBAL_SETTINGS": "1"})],
    "assumptions": [
        "documents are shape-consistent (a key is a map in every source or a leaf in every source): what Viper does with map-vs-scalar conflicts is third-party behaviour outside the property",
        "keys are lower-case (Viper lower-cases keys); argument sources carry ints and plain strings only",
        "two file loaders are both priority-ordered with Order 0: a leaf both supply may take either value",
    ],
}

CHECKS["C16"] = {
    "level": "exploration",
    "jobs": [
        J("value", "c16", "TestValue", 3000, 80000, 8),
        J("value-fmtlogger", "c16", "TestValue", 800, 10000, 2, env={"VERIF_FMT_LOGGER": "1"}),
        J("value-decliner", "c16", "TestValue", 800, 10000, 2, env={"VERIF_DECLINER": "1"}),  # a priority-ordered user post-processor that declines every component
        J("prefix", "c16", "TestPrefix", 800, 20000, 4),
        J("wire", "c16", "TestWire", 600, 10000, 2),
        J("retryafterset", "c16", "TestRetryAfterSet", 800, 10000, 2),
        J("defaults-as-written", "c16", "TestStaticDefaultsAsWritten", None, None),
        J("command-line-values", "c16", "TestStaticCommandLineValues", None, None),
        J("fuzz-value", "c16", "FuzzValue", None, None, tiers=["thorough"], fuzz={"target": "FuzzValue", "time": {"quick": "10s", "thorough": "120s"}}, timeout={"thorough": 900}),
    ],
    "assumptions": [
        "configured values contain only complete placeholders; defaults are drawn from text the container's default normalisation leaves unchanged; empty keys are not generated (Get(\"\") returns the whole document)",
        "the value carrier's text starts with a letter so that the later literal parsing (C17) cannot interfere",
        "termination = at most 100 x (reference steps) + 1000 configuration reads, counted by a Binder wrapper",
    ],
}

CHECKS["C17"] = {
    "level": "exploration",
    "jobs": [
        J("roundtrip", "c17", "TestRoundTrip", 4000, 150000, 12),
        J("literal", "c17", "TestLiteral", 2500, 60000, 4),
        J("crosstype", "c17", "TestCrossType", 1200, 30000, 4),
        J("conversions", "c17", "TestConversions", 800, 15000, 2),
        J("structshapes", "c17", "TestStructShapes", 600, 10000, 2),
        J("inconvertible", "c17", "TestInconvertible", 600, 10000, 2),
        J("history", "c17", "TestRebindHistory", 800, 20000, 4),
        J("argsvalues", "c17", "TestArgsValues", 300, 5000, 2),
        J("known", "c17", "TestKnownAnyNumberKind", None, None),
        J("preinit", "c17", "TestPreInitializedConfigure", 500, 8000, 2),
        J("roundtrip-decliner", "c17", "TestRoundTrip", 800, 10000, 2, env={"VERIF_DECLINER": "1"}),  # a priority-ordered user post-processor that declines every component
    ],
    "assumptions": [
        "strings containing the placeholder / expression delimiters ${ and #{ are not generated: configured values containing placeholders are resolved by design (C16)",
        "an empty string / list / map counts as absent for placeholders: only the prefix twin is compared there",
        "nil and empty slices / maps are identified (YAML cannot tell them apart); map keys are lower-case",
    ],
}

CHECKS["C18"] = {
    "level": "exploration",
    "jobs": [
        J("expressions", "c18", "TestExpressions", 3000, 80000, 8),
        J("validatevar", "c18", "TestValidateVar", 3000, 80000, 8),
        J("validatevar-fmtlogger", "c18", "TestValidateVar", 1500, 20000, 2, env={"VERIF_FMT_LOGGER": "1"}),
        J("expressions-fmtlogger", "c18", "TestExpressions", 800, 10000, 2, env={"VERIF_FMT_LOGGER": "1"}),
        J("expressions-decliner", "c18", "TestExpressions", 800, 10000, 2, env={"VERIF_DECLINER": "1"}),
        J("validatevar-decliner", "c18", "TestValidateVar", 800, 10000, 2, env={"VERIF_DECLINER": "1"}),
        J("validatestruct", "c18", "TestValidateStruct", 1000, 20000, 4),
        J("validatemulti", "c18", "TestValidateMulti", 1500, 30000, 4),
J("retryhistory", "c18", "TestRetryHistory", 600, 15000, 2),
                J("validateptr", "c18", "TestValidateUnboundPointer", 1000, 20000, 2),
        J("fuzz-expressions", "c18", "FuzzExpressions", None, None, tiers=["thorough"], fuzz={"target": "FuzzExpressions", "time": {"quick": "10s", "thorough": "120s"}}, timeout={"thorough": 900}),
    ],
    "assumptions": [
        "github.com/expr-lang/expr and go-playground/validator are trusted third parties (the reference evaluates the substituted text with the former; the constraint reimplementation is self-checked against the latter on every case)",
        "cases whose reference evaluation errors or yields NaN/Inf/empty string are skipped; divisors are non-zero literals",
        "constraint lists avoid oneof with several values (a space separates validate items in the tag grammar)",
    ],
}

CHECKS["C20"] = {
    "level": "exploration",
    "jobs": [
        J("races", "c20", "TestRaces", 400, 24000, 8, race=True),
        J("races-reallogger", "c20", "TestRaces", 150, 4000, 4, race=True, env={"VERIF_REAL_LOGGER": "1"}),
        J("reallogger-close-errors", "c20", "TestRealLoggerCloseErrors", 10, 50, 16, shards_q=8, race=True, env={"VERIF_REAL_LOGGER": "1"}),  # one chance per process (lazily initialised logger state): several fresh processes
        J("close-join", "c20", "TestCloseJoinsItsGoroutines", 300, 10000, 4, race=True, env={"VERIF_REC_LOGGER": "1"}),
        J("losfn-owned", "c20", "TestLoadOrStoreFnOwnedSchedule", 1500, 150000, 4, race=True),
        J("map-free", "c20", "TestMapFreeSchedule", 800, 100000, 4, race=True),
        J("sets-free", "c20", "TestSetsFreeSchedule", 1500, 50000, 2, race=True),
        J("sets-sequential", "c20", "TestSetsSequentialModel", 400, 20000, 2, race=True),
    ],
    "assumptions": [
        "the Go scheduler is not owned: races are searched by the race detector's happens-before analysis over generated scenarios under GOMAXPROCS 2/4/16 (exploration of schedules, not coverage); only the LoadOrStoreFn callback yield point is owned",
        "timestamps of the recorded histories come from one atomic counter (consistent with real-time order); Range is checked only for visiting each key at most once",
    ],
}
