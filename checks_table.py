"""Per-property job tables for ./check. One entry per claimed property."""

def J(name, pkg, run, quick, thorough, shards_t=1, **kw):
    d = {"name": name, "pkg": pkg, "run": run,
         "checks": {"quick": quick, "thorough": thorough},
         "shards": {"quick": 1, "thorough": shards_t}}
    d.update(kw)
    return d

CHECKS = {}

CHECKS["C12"] = {
    "level": "exploration",
    "jobs": [
        J("direct", "c12", "TestDirect", 4000, 150000, 4),
        J("runners", "c12", "TestRunners", 600, 20000, 4),
        J("loaders", "c12", "TestLoaders", 600, 20000, 2),
        J("postprocessors", "c12", "TestPostProcessors", 500, 15000, 4),
    ],
    "assumptions": [
        "the contract does not require stability: equal Orders may appear in any relative order",
        "post-processor sequence is observed on a probe component created after all user post-processors",
    ],
}
