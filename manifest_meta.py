HOOK_COMMITS = []
PENDING = {}
META = {
 "C12": {
  "text": "Generated multisets of participants (three classes, extreme/tied Orders, sizes 0-40) are pushed through the generic sorter and through the three real call sites (runners, loaders, component post-processors on a probe component); the oracle is the contract predicate itself (permutation by identity, class blocks, non-decreasing Order), which accepts every correct output. Exploration, not proof: sizes and Orders are sampled.",
  "design_ref": "DESIGN.md section 4, C12",
  "note": "Trusts rapid's generators and the harness event log; stability is deliberately not asserted.",
  "technique": "property-based testing (rapid): validity predicate over sorter output and observed invocation sequences",
 },
}
