HOOK_COMMITS = ["cbe49e7"]
PENDING = {}
META = {
 "C12": {
  "text": "Generated multisets of participants (three classes, extreme/tied Orders, sizes 0-40) are pushed through the generic sorter and through the three real call sites (runners, loaders, component post-processors on a probe component); the oracle is the contract predicate itself (permutation by identity, class blocks, non-decreasing Order), which accepts every correct output. Exploration, not proof: sizes and Orders are sampled.",
  "design_ref": "DESIGN.md section 4, C12",
  "note": "Trusts rapid's generators and the harness event log; stability is deliberately not asserted.",
  "technique": "property-based testing (rapid): validity predicate over sorter output and observed invocation sequences",
 },

 "C01": {
  "text": "Generated node-family scenarios (every digraph on up to 6 nodes through qualified slices, plus ring, group and by-name edges, lazy/primary variants, optional consistent early-wrapping post-processor, 200-node scale family) are started on the real container with drawn registration and registry-enumeration orders (verif hook); afterwards every tagged field of every registered component, GetComponentByName and GetComponents are compared by pointer identity. Exploration: shapes and orders are sampled, not exhausted.",
  "design_ref": "DESIGN.md section 4, C01",
  "note": "Trusts the harness wrappers/permuter around the real registries (build tag verif) and Go reflection for reading fields; Go map order inside the container is sampled only.",
  "technique": "property-based testing (rapid): generated dependency graphs, identity invariant over all holders and lookups",
 },
 "C02": {
  "text": "Random rich digraphs (required variants placed by the model, self-only family, scale family to 200 nodes) and the complete set of digraphs on 2 and 3 pure nodes x all creation orders x all required/optional assignments (thorough: 4 nodes) are started; a reference model written from the property decides must-succeed / must-fail, wiring is checked against admissible targets, and termination is decided by a deterministic creation budget. Exhaustive inside the stated small scope, sampled beyond it.",
  "design_ref": "DESIGN.md section 4, C02",
  "note": "Termination = terminates within the step budget; the model is the trusted base (reviewed against property text and README).",
  "technique": "property-based testing + exhaustive small-scope enumeration against a reference resolution model",
 },
 "C06": {
  "text": "Generated provider populations x run-time built consumer structs (reflect.StructOf) with unnamed wire/func points of every field kind; the oracle is a plain-reflect candidate set over the registered population: slices must hold exactly that set minus the holder, single points one member, start-up fails iff a required point has none.",
  "design_ref": "DESIGN.md section 4, C06",
  "note": "Trusts reflect.StructOf consumers being treated like declared structs; func returns values restricted to plain strings.",
  "technique": "property-based testing (rapid): differential against a reflect-based reference candidate set",
 },
 "C07": {
  "text": "Generated name assignments (custom, default package/type, empty custom) x requested names (present, absent, present but incompatible, default-name form) x field kinds (*T, interface, any), fields pre-filled with sentinels so 'untouched' is observable; plus duplicate-name registration attempts. Oracle: exactly the named component, else error iff required, sentinel kept when optional.",
  "design_ref": "DESIGN.md section 4, C07",
  "note": "Sentinel pre-fill assumes the container may overwrite a field only with a resolved component.",
  "technique": "property-based testing (rapid): model-based oracle for by-name resolution with sentinel frame check",
 },
 "C08": {
  "text": "Generated qualifier / Primary / naming attributes on providers x consumers with 1-4 fields (qualifier sets, single/slice, optional-empty fields placed before others); the per-field model (qualifier membership, unique Primary, else unique unnamed, ties accepted in the top rank) is compared with the injected identities, so interference between fields of one holder is a violation.",
  "design_ref": "DESIGN.md section 4, C08",
  "note": "Tie semantics (several Primary / several unnamed) accepted within the tied set only.",
  "technique": "property-based testing (rapid): per-field reference model of qualifier/Primary narrowing",
 },
}
