HOOK_COMMITS = ["cbe49e7"]
PENDING = {}
META = {
 "C12": {
  "text": "Generated multisets of participants (three classes, extreme/tied Orders, sizes 0-40) are pushed through the generic sorter and through the three real call sites (runners, loaders, component post-processors on a probe component); the oracle is the contract predicate itself (permutation by identity, class blocks, non-decreasing Order), which accepts every correct output. Exploration, not proof: sizes and Orders are sampled.",
  "design_ref": "DESIGN.md section 4, C12",
  "note": "Trusts rapid's generators and the harness event log; stability is deliberately not asserted.",
  "technique": "property-based testing (rapid): validity predicate over sorter output and observed invocation sequences",
 },

 "C01": {
  "text": "Generated node-family scenarios (every digraph on up to 6 nodes through qualified slices, plus ring, group and by-name edges, lazy/primary variants, optional consistent early-wrapping post-processor, 200-node scale family) are started on the real container with drawn registration and registry-enumeration orders (verif hook); afterwards every tagged field of every registered component, GetComponentByName and GetComponents are compared by pointer identity. Exploration: shapes and orders are sampled, not exhausted.",
  "design_ref": "DESIGN.md section 4, C01",
  "note": "Trusts the harness wrappers/permuter around the real registries (build tag verif) and Go reflection for reading fields; Go map order inside the container is sampled only.",
  "technique": "property-based testing (rapid): generated dependency graphs, identity invariant over all holders and lookups",
 },
 "C02": {
  "text": "Random rich digraphs (required variants placed by the model, self-only family, scale family to 200 nodes) and the complete set of digraphs on 2 and 3 pure nodes x all creation orders x all required/optional assignments (thorough: 4 nodes) are started; a reference model written from the property decides must-succeed / must-fail, wiring is checked against admissible targets, and termination is decided by a deterministic creation budget. Exhaustive inside the stated small scope, sampled beyond it.",
  "design_ref": "DESIGN.md section 4, C02",
  "note": "Termination = terminates within the step budget; the model is the trusted base (reviewed against property text and README).",
  "technique": "property-based testing + exhaustive small-scope enumeration against a reference resolution model",
 },
 "C06": {
  "text": "Generated provider populations x run-time built consumer structs (reflect.StructOf) with unnamed wire/func points of every field kind; the oracle is a plain-reflect candidate set over the registered population: slices must hold exactly that set minus the holder, single points one member, start-up fails iff a required point has none.",
  "design_ref": "DESIGN.md section 4, C06",
  "note": "Trusts reflect.StructOf consumers being treated like declared structs; func returns values restricted to plain strings.",
  "technique": "property-based testing (rapid): differential against a reflect-based reference candidate set",
 },
 "C07": {
  "text": "Generated name assignments (custom, default package/type, empty custom) x requested names (present, absent, present but incompatible, default-name form) x field kinds (*T, interface, any), fields pre-filled with sentinels so 'untouched' is observable; plus duplicate-name registration attempts. Oracle: exactly the named component, else error iff required, sentinel kept when optional.",
  "design_ref": "DESIGN.md section 4, C07",
  "note": "Sentinel pre-fill assumes the container may overwrite a field only with a resolved component.",
  "technique": "property-based testing (rapid): model-based oracle for by-name resolution with sentinel frame check",
 },
 "C08": {
  "text": "Generated qualifier / Primary / naming attributes on providers x consumers with 1-4 fields (qualifier sets, single/slice, optional-empty fields placed before others); the per-field model (qualifier membership, unique Primary, else unique unnamed, ties accepted in the top rank) is compared with the injected identities, so interference between fields of one holder is a violation.",
  "design_ref": "DESIGN.md section 4, C08",
  "note": "Tie semantics (several Primary / several unnamed) accepted within the tied set only.",
  "technique": "property-based testing (rapid): per-field reference model of qualifier/Primary narrowing",
 },

 "C03": {
  "text": "Generated wrap plans (early reference / before / after initialization; fresh or repeated wrapper) on components consumed through interfaces, over random rich and pure digraphs (with programmatic lookups from Init callbacks that shift when an early reference is requested) and exhaustively over every digraph on 2 pure nodes and selected 3-node shapes x all creation orders x all 12^n plans. Oracle: a successful start shows one version per component to every holder and to the by-name lookup; failure is always admissible, the evidence reports the split.",
  "design_ref": "DESIGN.md section 4, C03",
  "note": "Known finding C03/retry-after-refused-lazy-creation is excluded by construction (no lookup after a refused lazy creation) and re-confirmed by a fixed witness on every run.",
  "technique": "property-based testing + exhaustive enumeration of wrap plans on small cycles; version-uniqueness invariant",
 },
 "C04": {
  "text": "A rapid state machine drives the real SingletonComponentRegistry with exactly the operations the factory's lookup protocol can issue (nested creations to depth 4 over 4 names, early-reference factories that may wrap or fail, lookups with/without early references, failing creations, lookups after failures) and compares every observable with a per-name model after each step; the same invariants are evaluated over call histories traced from real starts with injected Init/AfterPropertiesSet faults, followed by GetComponentByName of each failed name.",
  "design_ref": "DESIGN.md section 4, C04",
  "note": "The tracer wraps the real registry through the verif hook; model and script generator are the trusted base.",
  "technique": "stateful model-based property testing (rapid state machine) + history invariant checking on traced real executions",
 },
 "C05": {
  "text": "Generated dependency graphs (dense rich family and thinned pure family: DAGs, diamonds, cycles with tails), lazy/eager mixes and 0-3 observing post-processors (unordered / ordered, before and after the built-in ones); an event log written by the components' own callbacks and the observers is checked per component for the exact pass before* < AfterPropertiesSet < Init < after*, for nothing being populated later than the first callback, for dependencies-first over the observed edges, and for lazy components being initialised iff held.",
  "design_ref": "DESIGN.md section 4, C05",
  "note": "Observers are dependency-free; 'depends back' is computed on observed edges.",
  "technique": "property-based testing (rapid): event-log invariants over generated graphs",
 },
 "C09": {
  "text": "For each generated base scenario that the model says starts, every fault site is enumerated (each Init/AfterPropertiesSet, each post-processor callback on each component, each loader, each runner, each required component point made unsatisfiable, each required configuration key removed) and injected one at a time (thorough: also in pairs). Oracle: a fault that fired before the runner phase => Run returns an error without panic and no runner ran; nothing fired => clean start with unsatisfied optional points left zero.",
  "design_ref": "DESIGN.md section 4, C09",
  "note": "Whether a callback fault fired is recorded by the harness instrumentation; structural faults are judged by the reference model.",
  "technique": "fault enumeration over generated scenarios (rapid) with fired-fault oracle",
 },

 "C10": {
  "text": "Metamorphic: one generated component set (populations with ties, Primary/unnamed/qualifier attributes, holders that are their own candidates; node-family graphs; a user definition scanner rejecting drawn components under drawn per-goroutine yields) is started 6 times (thorough 16) with independently drawn registration and registry-enumeration orders (explicit permuter through the verif hook, plus the runtime's own order); outcomes and every untied point must agree, tied points must stay inside the model's tied set.",
  "design_ref": "DESIGN.md section 4, C10",
  "note": "The Go scheduler and Go map order inside the container are sampled by repetition, not enumerated.",
  "technique": "metamorphic property-based testing (rapid): repeated starts under drawn orders/schedules must agree",
 },
 "C11": {
  "text": "Metamorphic over struct shapes: a generated flat leaf list and a random re-nesting of the same leaves into anonymous by-value run-time structs (depth<=5) are registered side by side with a recording custom-tag processor (tag + extract handler); leaves must be processed identically and as expected, sentinels of untagged / unexported / foreign-tagged leaves must survive bit-for-bit, and the recorder must receive exactly the custom-tagged leaves with value and arguments. Static fixtures cover embedded types with unexported names.",
  "design_ref": "DESIGN.md section 4, C11",
  "note": "reflect.StructOf cannot embed under an unexported name; unexported leaves are pre-filled through unsafe.",
  "technique": "metamorphic property-based testing (rapid) over run-time built struct types with frame-condition sentinels",
 },
 "C13": {
  "text": "Generated applications with 0-6 runners over the three ordering classes (ties, extreme Orders, lazy runners, runners whose own initialisation fails), for each case one choice 'no failure | runner j fails'; the shared event log must show every runner once after all initialisation, in contract order, and with a failing runner exactly the prefix up to it with Run returning an error.",
  "design_ref": "DESIGN.md section 4, C13",
  "note": "Failing position is drawn per case (each position reachable), not exhaustively enumerated per case.",
  "technique": "property-based testing (rapid) with injected runner faults; event-log oracle",
 },
 "C14": {
  "text": "The harness owns the schedule of the concurrent Close calls: each of 0-12 generated closers (some failing, some lazy) blocks on its own gate, App.Close runs in a goroutine, gates are opened one by one in a drawn order; before every opening App.Close must still be running, afterwards every closer was called exactly once and had returned before App.Close did.",
  "design_ref": "DESIGN.md section 4, C14",
  "note": "A sequential implementation is not rejected; the 10 s bound only applies once all gates are open.",
  "technique": "property-based testing (rapid) with harness-owned schedule (gated closers)",
 },
 "C19": {
  "text": "Faithful part: tags rendered from generated structures (value with balanced mixed bracket groups, repeated / case-variant argument names, flags, empty lists) are parsed by the real NewProperty and compared with the structure; end-to-end on run-time built structs for the required=false rule and the prop shorthand split. Totality: hostile-alphabet and raw-byte strings through NewProperty and the three built-in tag scanners (rapid; thorough adds coverage-guided native fuzzing seeded with every tag literal of the repository's tests).",
  "design_ref": "DESIGN.md section 4, C19",
  "note": "For unbalanced strings only no-panic and the required=false rule are asserted.",
  "technique": "property-based round-trip testing (rapid) + native go fuzzing with semantic oracle in the target",
 },

 "C15": {
  "text": "Generated documents over a shape-consistent key schema, 1-4 sources of kinds raw / file / arguments (explicit loader or the default one through os.Args), attached by generated option scripts (SetConfigLoader, AddConfigLoader, SetConfig; file loaders inside loader lists; a source re-added at the end); a reference deep merge in the contract sequence decides every leaf (two files may tie), checked through App.Get and prefix-bound fields.",
  "design_ref": "DESIGN.md section 4, C15",
  "note": "Viper's handling of map-vs-scalar conflicts and key case is third-party behaviour and generated around.",
  "technique": "property-based testing (rapid): differential against a reference merge",
 },
 "C16": {
  "text": "Generated tag texts with repeated, defaulted and nested placeholders over configurations whose values contain placeholders (chains, diamonds, cycles); an independent recursive resolver with a visiting set is the oracle for the value, prefix and wire carriers; termination is decided by counting configuration reads through a Binder wrapper against 100 x reference steps + 1000.",
  "design_ref": "DESIGN.md section 4, C16",
  "note": "Terminates = within the read budget; only complete placeholders inside configured values.",
  "technique": "property-based testing (rapid): reference resolver oracle + deterministic step budget",
 },
 "C17": {
  "text": "Round trip / differential: typed Go values (all integer widths incl. extremes, floats, bools, tricky strings, slices, maps, nested structs, pointers) are marshalled to YAML and bound through prefix, value placeholder, prop shorthand and literal twins built at run time; the prefix twin must equal the value, the other twins must equal the prefix twin, literals are bound as written.",
  "design_ref": "DESIGN.md section 4, C17",
  "note": "yaml.v3 marshalling and Viper reading are trusted; strings with placeholder delimiters excluded (C16 semantics).",
  "technique": "property-based round-trip and differential testing (rapid) over run-time built struct types",
 },

 "C18": {
  "text": "Expressions are generated from a grammar over literals and placeholders fed by a drawn configuration; the oracle substitutes placeholders with the reference and evaluates the resulting text directly with the expression library, the field typed after the result must hold exactly that. Validation: generated value x constraint lists at and around the limits on int and string fields (from literals or configuration) and structs bound by prefix; an independent reimplementation of the constraints (self-checked against the validator library on every case) decides fail / no fail as a biconditional, including the absence of the validate argument.",
  "design_ref": "DESIGN.md section 4, C18",
  "note": "expr-lang/expr and go-playground/validator are trusted third parties.",
  "technique": "property-based differential testing (rapid): direct library evaluation vs. container result; biconditional validation oracle",
 },
 "C20": {
  "text": "Race part: generated applications with user definition scanners rejecting several components at once and failing closers are started and shut down in a -race build under GOMAXPROCS 2/4/16; the oracle is the race detector. Atomicity part: histories of the concurrent map and set utilities are recorded and checked for linearizability with porcupine, once with the harness owning the schedule through the LoadOrStoreFn callback (caller 1 parked while caller 2 runs complete operations) and once with 3-6 free-running goroutines.",
  "design_ref": "DESIGN.md section 4, C20",
  "note": "Interleavings are sampled except for the owned LoadOrStoreFn yield point; the race detector only sees executed accesses.",
  "technique": "generated scenarios under the Go race detector + linearizability checking (porcupine) of recorded histories, one owned schedule",
 },
}
