#!/usr/bin/env python3
"""benign_matrix.py <dir-with-*/patch.diff> [--own] : applies each behaviour-preserving change to the repository
($VERIF_REPO_DIR, default /repo), confirms that the repository's own tests still pass, runs every claimed quick check
(or with --own only the check of the property the directory name starts with) and reverts. Any exit code other than 0
is a false alarm (or shows that the change is not behaviour preserving after all) and is listed for review.
Output: benign/RESULTS.md under the directory this script lives in."""
import json, os, subprocess, sys, time
env = dict(os.environ, GOFLAGS="-mod=mod", GOPROXY="off", GOSUMDB="off", GOTOOLCHAIN="local")
def sh(cmd, cwd=None):
    r = subprocess.run(cmd, shell=True, cwd=cwd, env=env, stdout=subprocess.PIPE, stderr=subprocess.STDOUT, text=True)
    return r.returncode, r.stdout
REPO = os.environ.get("VERIF_REPO_DIR", "/repo")
HERE = os.path.dirname(os.path.abspath(__file__))
if REPO != "/repo":
    print(sh("go mod edit -replace github.com/go-kid/ioc=%s" % REPO, HERE + "/harness"))
src = os.path.abspath(sys.argv[1])
own = "--own" in sys.argv
claimed = [c["property_id"] for c in json.load(open(HERE + "/MANIFEST.json"))["checks"]]
assert sh("git -C " + REPO + " status --short")[1].strip() == "", "repo dirty"
rows = []
os.makedirs(HERE + "/benign", exist_ok=True)
for name in sorted(os.listdir(src)):
    d = os.path.join(src, name)
    if not os.path.exists(d + "/patch.diff"):
        continue
    if own and not name.startswith("C"):
        continue
    rc, out = sh("git -C %s apply %s/patch.diff" % (REPO, d))
    row = {"change": name, "applies": rc == 0, "results": {}, "alarms": []}
    if rc == 0:
        rc1, out1 = sh("go build ./... && go test -count=1 ./... 2>&1 | grep -E '^(FAIL|--- FAIL|panic)' | head -3", REPO)
        row["repo_tests_pass"] = rc1 == 0 and not out1.strip()
        for c in ([name.split("-")[0]] if own else claimed):
            rc2, out2 = sh("./check %s --tier quick" % c, HERE)
            row["results"][c] = rc2
            if rc2 != 0:
                row["alarms"].append((c, [l for l in out2.split("\n") if "VIOLATION" in l or "INCONCLUSIVE" in l][:3]))
    sh("git -C %s checkout -- . ; git -C %s clean -fdq" % (REPO, REPO))
    rows.append(row)
    print(name, "applies" if row["applies"] else "DOES NOT APPLY", "tests", row.get("repo_tests_pass"), "alarms", row["alarms"], flush=True)
out_name = "RESULTS-own" if own else "RESULTS"
if "--out" in sys.argv:
    out_name = sys.argv[sys.argv.index("--out") + 1]
json.dump(rows, open(HERE + "/benign/%s.json" % out_name, "w"), indent=1)
with open(HERE + "/benign/%s.md" % out_name, "w") as f:
    f.write("# Behaviour-preserving changes vs. quick checks\n\n| change | repo tests | checks run | alarms |\n|---|---|---|---|\n")
    for r in rows:
        f.write("| %s | %s | %d | %s |\n" % (r["change"], "pass" if r.get("repo_tests_pass") else "FAIL / n.a.", len(r["results"]), "; ".join("%s %s" % (c, " ".join(l)) for c, l in r["alarms"]) or "none"))
print("changes %d, with alarms %d" % (len(rows), sum(1 for r in rows if r["alarms"])))
