package c16

import (
	"fmt"
	"os"
	"reflect"
	"regexp"
	"sort"
	"strconv"
	"strings"
	"testing"

	"github.com/go-kid/ioc/app"
	"github.com/go-kid/ioc/configure/binder"
	"github.com/go-kid/ioc/configure/loader"
	"gopkg.in/yaml.v3"
	"pgregory.net/rapid"
	"verif/harness/graph"
	"verif/harness/kit"
	"verif/harness/zoo"
)

func TestMain(m *testing.M) { kit.Main(m) }

const rule = "tag texts built from literal chunks and placeholders ${k} / ${k:default} (present / absent / present-but-empty-map-or-list keys, nesting ${p.${q}} to depth 3, repetition) over configurations whose string values may themselves contain complete placeholders (chains, diamonds, self and mutual cycles); carried by value (string field), prefix (key selection) and wire (name selection); oracle: recursive reference resolver with an explicit visiting set - acyclic => exactly the resolved text / key / component, cyclic => error or empty, never more than 100x(reference steps)+1000 configuration reads (deterministic hang budget through a counting Binder); non-trivial = >=2 placeholders or a nested one or a configured value that contains a placeholder; distinct by tag text + configuration; since rounds 7/8 also numbers with many digits, numeric-looking defaults (spliced as written), dollar signs, the prop carrier with keys built from placeholders, another App with other values under the same keys, and a priority-ordered post-processor that declines every component; command-line values containing '='"

// ---- counting binder (deterministic termination budget) ------------------------------------------

type countingBinder struct {
	*binder.ViperBinder
	gets, budget int
}

func (c *countingBinder) Get(path string) any {
	c.gets++
	if c.budget > 0 && c.gets > c.budget {
		panic(graph.BudgetExceeded{What: fmt.Sprintf("%d configuration reads while resolving placeholders (budget %d)", c.gets, c.budget)})
	}
	return c.ViperBinder.Get(path)
}

// ---- reference resolver ---------------------------------------------------------------------------

var phRe = regexp.MustCompile(`\$\{[^{}]*\}`)

type cyc struct{ key string }

func (c cyc) Error() string { return "circular placeholder reference through " + c.key }

type ref struct {
	cfg   map[string]any // flat: dotted key -> value (string, int, empty map, empty list)
	steps int
}

func format(v any) string {
	switch x := v.(type) {
	case string:
		return x
	case int:
		return strconv.Itoa(x)
	case bool:
		return strconv.FormatBool(x)
	case float64:
		// the shortest decimal text that reads back as the same number (the generator stays in the range where the
		// plain and the %v spelling coincide)
		return strconv.FormatFloat(x, 'f', -1, 64)
	}
	return fmt.Sprint(v)
}

func (r *ref) present(k string) (any, bool) {
	v, ok := r.cfg[k]
	if !ok {
		return nil, false
	}
	switch x := v.(type) {
	case map[string]any:
		if len(x) == 0 {
			return nil, false
		}
	case []any:
		if len(x) == 0 {
			return nil, false
		}
	}
	return v, true
}

func (r *ref) resolve(s string, visiting map[string]bool) (string, error) {
	for {
		loc := phRe.FindStringIndex(s)
		if loc == nil {
			return s, nil
		}
		r.steps++
		if r.steps > 5000 {
			return "", cyc{"(reference budget)"}
		}
		content := s[loc[0]+2 : loc[1]-1]
		key, def, _ := strings.Cut(content, ":")
		var repl string
		if v, ok := r.present(key); ok {
			if visiting[key] {
				return "", cyc{key}
			}
			visiting[key] = true
			x, err := r.resolve(format(v), visiting)
			delete(visiting, key)
			if err != nil {
				return "", err
			}
			repl = x
		} else {
			repl = def
		}
		s = s[:loc[0]] + repl + s[loc[1]:]
	}
}

// ---- generators ------------------------------------------------------------------------------------

var keys = []string{"k0", "k1", "k2", "k3", "k4", "g.a", "g.b"}
var absentKeys = []string{"zz", "g.zz", "nope"}
var emptyKeys = []string{"em", "el"}

var litGen = rapid.StringMatching(`[a-z][a-z0-9._/-]{0,4}`)

// cfgLitGen: configured texts may contain what would be argument syntax in a tag (a value is data, never tag text)
var cfgLitGen = rapid.OneOf(litGen, litGen, rapid.SampledFrom([]string{"a, b", "k=v", "x,required=false", "p q", "pa$$word", "$x", "x$"}))
var defGen = rapid.OneOf(rapid.StringMatching(`[a-z][a-z0-9._-]{0,4}`), rapid.SampledFrom([]string{"", "d", "http://h.x:80", "x-1", "Dear ", " x", " ", "a b ", "123456789", "16777217", "3.141592653589793", "0.1", "9007199254740993", "007", "1.50", "TRUE", "00501", "+5", "1.0", "US$", "^[a-z]+$", "$HOME/x", "a$b"}))

func genPlaceholder(t *rapid.T, depth int, allowAbsent bool) string {
	var key string
	switch k := rapid.IntRange(0, 9).Draw(t, "keykind"); {
	case k == 0 && allowAbsent:
		key = rapid.SampledFrom(absentKeys).Draw(t, "absent")
	case k == 1:
		key = rapid.SampledFrom(emptyKeys).Draw(t, "emptykey")
	case k == 2 && depth < 3:
		// nested: key built from another placeholder: sel.<value of ...>
		key = "sel." + genPlaceholder(t, depth+1, false)
	default:
		key = rapid.SampledFrom(keys).Draw(t, "key")
	}
	if rapid.IntRange(0, 2).Draw(t, "hasdefault") == 0 {
		d := defGen.Draw(t, "default")
		if depth < 3 && rapid.IntRange(0, 5).Draw(t, "defph") == 0 {
			d = genPlaceholder(t, depth+1, false)
		}
		return "${" + key + ":" + d + "}"
	}
	return "${" + key + "}"
}

func genText(t *rapid.T, allowAbsent bool) (string, int, bool) {
	n := rapid.IntRange(1, 4).Draw(t, "chunks")
	var sb strings.Builder
	phs, nested := 0, false
	for i := 0; i < n; i++ {
		if rapid.IntRange(0, 2).Draw(t, "isph") > 0 {
			p := genPlaceholder(t, 0, allowAbsent)
			if strings.Count(p, "${") > 1 {
				nested = true
			}
			phs += strings.Count(p, "${")
			sb.WriteString(p)
		} else {
			sb.WriteString(litGen.Draw(t, "lit"))
		}
	}
	return sb.String(), phs, nested
}

// genConfig: flat key -> value. String values may contain complete placeholders to other keys.
func genConfig(t *rapid.T, allowCycles bool) (map[string]any, bool) {
	cfg := map[string]any{"em": map[string]any{}, "el": []any{}}
	valueHasPh := false
	order := rapid.Permutation(append([]string{}, keys...)).Draw(t, "korder")
	for i, k := range order {
		switch rapid.IntRange(0, 5).Draw(t, "vkind") {
		case 0:
			switch rapid.IntRange(0, 3).Draw(t, "numkind") {
			case 0:
				// numbers with many significant digits: they are configured values like any other
				cfg[k] = rapid.SampledFrom([]float64{3.141592653589793, 0.1, 2.718281828459045, 1234567.891, 16777217.5, 0.30000000000000004}).Draw(t, "fval")
			case 1:
				cfg[k] = rapid.SampledFrom([]int{16777217, 123456789, 987654321, 1 << 40, 9007199254740993}).Draw(t, "bigival")
			default:
				cfg[k] = rapid.IntRange(0, 99).Draw(t, "ival")
			}
		case 1, 2:
			cfg[k] = cfgLitGen.Draw(t, "sval")
		case 3:
			// absent
		default:
			// refers to other keys: acyclic = only keys later in the order
			var pool []string
			if allowCycles {
				pool = order
			} else {
				pool = order[i+1:]
			}
			if len(pool) == 0 {
				cfg[k] = cfgLitGen.Draw(t, "sval2")
				continue
			}
			var sb strings.Builder
			m := rapid.IntRange(1, 2).Draw(t, "nrefs")
			for j := 0; j < m; j++ {
				sb.WriteString(litGen.Draw(t, "pre"))
				tgt := rapid.SampledFrom(pool).Draw(t, "reftarget")
				if rapid.Bool().Draw(t, "refdefault") {
					sb.WriteString("${" + tgt + ":" + defGen.Draw(t, "refdef") + "}")
				} else {
					sb.WriteString("${" + tgt + "}")
				}
			}
			cfg[k] = sb.String()
			valueHasPh = true
		}
	}
	// selection table for nested keys: sel.<anything that can come out> is sparse on purpose
	for _, v := range []string{"one", "two"} {
		cfg["sel."+v] = "picked-" + v
	}
	return cfg, valueHasPh
}

func nest(flat map[string]any) map[string]any {
	root := map[string]any{}
	var ks []string
	for k := range flat {
		ks = append(ks, k)
	}
	sort.Strings(ks)
	for _, p := range ks {
		parts := strings.Split(p, ".")
		m := root
		okPath := true
		for _, k := range parts[:len(parts)-1] {
			nx, ok := m[k].(map[string]any)
			if !ok {
				if _, exists := m[k]; exists {
					okPath = false
					break
				}
				nx = map[string]any{}
				m[k] = nx
			}
			m = nx
		}
		if okPath {
			m[parts[len(parts)-1]] = flat[p]
		}
	}
	return root
}

func cfgString(flat map[string]any) string {
	var ks []string
	for k := range flat {
		ks = append(ks, k)
	}
	sort.Strings(ks)
	var s []string
	for _, k := range ks {
		s = append(s, fmt.Sprintf("%s=%q", k, fmt.Sprint(flat[k])))
	}
	return strings.Join(s, " ")
}

func runWith(flat map[string]any, budget int, comps ...any) (kit.Outcome, *countingBinder) {
	y, _ := yaml.Marshal(nest(flat))
	cb := &countingBinder{ViperBinder: binder.NewViperBinder("yaml"), budget: budget}
	out := kit.RunApp(app.SetConfigBinder(cb), app.SetConfigLoader(loader.NewRawLoader(y)), app.SetComponents(comps...))
	return out, cb
}

// structWith builds a component with the field under test (F) between drawn decoy fields of other kinds.
func structWith(d *kit.Decoys, typ reflect.Type, tagKey, tagVal string) reflect.Value {
	t := reflect.StructOf(d.Around(reflect.StructField{Name: "F", Type: typ, Tag: reflect.StructTag(tagKey + ":" + strconv.Quote(tagVal))}))
	return reflect.New(t)
}

// decoysOK: after a successful start the neighbouring fields hold what they must.
func decoysOK(t *rapid.T, d *kit.Decoys, out kit.Outcome, obj reflect.Value, desc string) {
	if out.Err != nil || out.Panic != nil {
		return
	}
	if err := d.Check(obj); err != nil {
		t.Fatalf("C16: %v\n%s", err, desc)
	}
}

// ---- value carrier ------------------------------------------------------------------------------

func TestValue(t *testing.T) {
	kit.Rec.Rule(rule)
	rapid.Check(t, propValue)
}

// FuzzValue drives the same property with coverage-guided native fuzzing (thorough tier).
func FuzzValue(f *testing.F) { f.Fuzz(rapid.MakeFuzz(propValue)) }

func propValue(t *rapid.T) {
	{
		cycles := rapid.IntRange(0, 3).Draw(t, "cyclesallowed") == 0
		flat, valueHasPh := genConfig(t, cycles)
		text, phs, nested := genText(t, true)
		text = "x" + text // a leading letter keeps the later literal parsing out of the picture (C17's subject)
		r := &ref{cfg: flat}
		want, rerr := r.resolve(text, map[string]bool{})
		tagText := text
		if rapid.IntRange(0, 3).Draw(t, "optional") == 0 {
			tagText += ",required=false" // an optional property resolves exactly the same way
		}
		dc := kit.DrawDecoys(t)
		obj := structWith(dc, reflect.TypeOf(""), "value", tagText)
		budget := 100*r.steps + 1000
		out, cb := runWith(flat, budget, obj.Interface())
		desc := fmt.Sprintf("value:%q cfg{%s}%s", text, cfgString(flat), dc)
		decoysOK(t, dc, out, obj, desc)
		if out.Panic != nil {
			if b, ok := out.Panic.(graph.BudgetExceeded); ok {
				t.Fatalf("C16: placeholder resolution does not terminate: %v (reference: %d steps, cyclic=%v)\n%s", b, r.steps, rerr != nil, desc)
			}
			t.Fatalf("C16: panic %v\n%s", out.Panic, desc)
		}
		got := obj.Elem().FieldByName("F").String()
		labels := dc.Labels()
		if rerr != nil {
			labels = append(labels, "cyclic")
			if out.Err == nil && got != "" {
				t.Fatalf("C16: circular reference (%v) but the field was bound to %q without error\n%s", rerr, got, desc)
			}
		} else {
			if out.Err != nil {
				t.Fatalf("C16: acyclic placeholders, reference resolves to %q, but start-up failed: %v\n%s", want, out, desc)
			}
			if got != want {
				t.Fatalf("C16: field bound to %q, reference resolution gives %q (%d configuration reads)\n%s", got, want, cb.gets, desc)
			}
			labels = append(labels, "resolved")
		}
		if nested {
			labels = append(labels, "nested")
		}
		if valueHasPh {
			labels = append(labels, "value-contains-placeholder")
		}
		kit.Rec.Case(desc, phs >= 2 || nested || valueHasPh, labels...)
	}
}

// ---- prefix carrier: key selection ------------------------------------------------------------

func TestPrefix(t *testing.T) {
	kit.Rec.Rule(rule)
	rapid.Check(t, func(t *rapid.T) {
		flat, valueHasPh := genConfig(t, false)
		flat["tbl.one"], flat["tbl.two"], flat["tbl.x"] = 11, 22, 33
		// selector keys resolve to one / two / something else
		flat["s1"] = rapid.SampledFrom([]string{"one", "two", "three", "${s2}", "${s2:one}"}).Draw(t, "s1")
		if rapid.Bool().Draw(t, "hass2") {
			flat["s2"] = rapid.SampledFrom([]string{"one", "two", "x"}).Draw(t, "s2")
		}
		ph := rapid.SampledFrom([]string{"${s1}", "${s1:two}", "${s2:x}", "${zz:one}", "${zz}", "${el:two}"}).Draw(t, "ph")
		text := "tbl." + ph
		if rapid.IntRange(0, 2).Draw(t, "phprefix") == 0 {
			// the key text begins AND ends with a placeholder
			flat["tb"] = "tbl"
			text = "${tb}." + ph
		}
		// the same key text under the prop shorthand names the key whose VALUE is bound (prop:"k" is value:"${k}")
		carrier := rapid.SampledFrom([]string{"prefix", "prefix", "prop"}).Draw(t, "carrier")
		opt := rapid.Bool().Draw(t, "optional")
		tag := text
		if opt {
			tag += ",required=false"
		}
		r := &ref{cfg: flat}
		key, rerr := r.resolve(text, map[string]bool{})
		dc := kit.DrawDecoys(t)
		obj := structWith(dc, reflect.TypeOf(0), carrier, tag)
		out, _ := runWith(flat, 100*r.steps+1000, obj.Interface())
		desc := fmt.Sprintf("%s:%q cfg{%s}%s", carrier, tag, cfgString(flat), dc)
		decoysOK(t, dc, out, obj, desc)
		if out.Panic != nil {
			t.Fatalf("C16: panic %v\n%s", out.Panic, desc)
		}
		if rerr != nil {
			t.Skip("cyclic selector")
		}
		want, present := flat[key]
		got := int(obj.Elem().FieldByName("F").Int())
		switch {
		case present:
			if out.Err != nil || got != want.(int) {
				t.Fatalf("C16: prefix resolves to key %q (= %v) but the field holds %d (err %v)\n%s", key, want, got, out.Err, desc)
			}
		case opt:
			if out.Err != nil || got != 0 {
				t.Fatalf("C16: prefix resolves to the absent key %q on an optional field: expected zero value and no error, got %d / %v\n%s", key, got, out.Err, desc)
			}
		default:
			if out.Err == nil {
				t.Fatalf("C16: prefix resolves to the absent key %q on a required field, yet start-up succeeded with %d\n%s", key, got, desc)
			}
		}
		kit.Rec.Case(desc, true, carrier+"-carrier", fmt.Sprintf("present-%v", present))
		_ = valueHasPh
	})
}

// ---- wire carrier: name selection -----------------------------------------------------------------

func TestWire(t *testing.T) {
	kit.Rec.Rule(rule)
	rapid.Check(t, func(t *rapid.T) {
		flat := map[string]any{"em": map[string]any{}}
		if rapid.Bool().Draw(t, "hasn") {
			flat["n"] = rapid.SampledFrom([]string{"alpha", "beta", "gamma", "${m}", "${m:beta}"}).Draw(t, "n")
		}
		if rapid.Bool().Draw(t, "hasm") {
			flat["m"] = rapid.SampledFrom([]string{"alpha", "beta", "delta"}).Draw(t, "m")
		}
		text := rapid.SampledFrom([]string{"${n}", "${n:alpha}", "${m:beta}", "${zz:alpha}", "${em:beta}", "al${sfx:pha}", "${n}${zz}", "${zz:}", "${em:}", "${zz}"}).Draw(t, "text")
		r := &ref{cfg: flat}
		name, rerr := r.resolve(text, map[string]bool{})
		if rerr != nil {
			t.Skip("cyclic")
		}
		a := zoo.ProviderKinds[0].New(&zoo.Beh{Alias: "alpha"})
		b := zoo.ProviderKinds[0].New(&zoo.Beh{Alias: "beta"})
		dc := kit.DrawDecoys(t)
		obj := structWith(dc, reflect.TypeOf((*zoo.IAll)(nil)).Elem(), "wire", text)
		out, _ := runWith(flat, 100*r.steps+1000, obj.Interface(), a, b)
		desc := fmt.Sprintf("wire:%q cfg{%s}%s", text, cfgString(flat), dc)
		decoysOK(t, dc, out, obj, desc)
		if out.Panic != nil {
			t.Fatalf("C16: panic %v\n%s", out.Panic, desc)
		}
		var want any
		switch name {
		case "alpha":
			want = a
		case "beta":
			want = b
		}
		got := obj.Elem().FieldByName("F").Interface()
		if want != nil {
			if out.Err != nil || got != want {
				t.Fatalf("C16: wire resolves to component %q but the field holds %v (err %v)\n%s", name, got, out.Err, desc)
			}
		} else if name != "" && out.Err == nil {
			t.Fatalf("C16: wire resolves to %q which names no component, yet start-up succeeded\n%s", name, desc)
		}
		lab := "wire-carrier"
		if name == "" {
			// everything resolved to nothing: the tag is processed as if it had been written wire:"" - by type
			if out.Err != nil || (got != a && got != b) {
				t.Fatalf("C16: the wire tag resolves to the empty text, i.e. wire:\"\" (by type: alpha and beta fit), but the field holds %v (err %v)\n%s", got, out.Err, desc)
			}
			lab = "wire-carrier-resolves-to-empty"
		}
		kit.Rec.Case(desc, true, lab)
	})
}

// ---- a multi-step history: lookup fails, configuration is completed through Set, lookup again -----

type LazyCfg struct {
	Port int    `value:"${c16r.port}"`
	URL  string `value:"http://${c16r.host:localhost}:${c16r.port:80}/${c16r.path:}api"`
}

func (*LazyCfg) LazyInit()      {}
func (*LazyCfg) Naming() string { return "lazy-cfg" }

// TestStaticDefaultsAsWritten: the replay of a defect found and repaired (KNOWN_FINDINGS.txt, fixed C16): a default
// is substituted as written, also when it looks like a number or a boolean.
func TestStaticDefaultsAsWritten(t *testing.T) {
	kit.Rec.Rule(rule)
	for _, d := range []string{"007", "00501", "1.50", "1.0", "TRUE", "+5", "9007199254740993", "0.10"} {
		for _, form := range []string{"${c16.no.such.key:%s}", "v${c16.no.such.key:%s}", "${c16.no.such.key:%s}-x"} {
			tag := fmt.Sprintf(form, d)
			obj := structWith(&kit.Decoys{}, reflect.TypeOf(""), "value", tag)
			out, _ := runWith(map[string]any{}, 0, obj.Interface())
			want := strings.Replace(tag, "${c16.no.such.key:"+d+"}", d, 1)
			if !out.OK() || obj.Elem().FieldByName("F").String() != want {
				kit.DumpReplay("c16-default-as-written", map[string]any{"tag": tag, "field": obj.Elem().FieldByName("F").String(), "want": want, "outcome": fmt.Sprint(out)})
				t.Fatalf("C16: value:%q on a string field gives %q (%v); the default is %q, so the tag reads %q", tag, obj.Elem().FieldByName("F").String(), out, d, want)
			}
			kit.Rec.Case(tag, true, "default-as-written")
		}
	}
}

// TestStaticCommandLineValues: keys configured on the command line (--app.config=key=value) are configured keys like
// any other: a placeholder is replaced by the value as given, also when the value contains '=' itself.
func TestStaticCommandLineValues(t *testing.T) {
	kit.Rec.Rule(rule)
	values := map[string]string{"c16a.dsn": "host=pg.local port=5432 dbname=orders", "c16a.token": "c2VjcmV0MQ==", "c16a.plain": "plain", "c16a.which": "c16a"}
	var args []string
	for _, k := range []string{"c16a.dsn", "c16a.token", "c16a.plain", "c16a.which"} {
		args = append(args, "--app.config="+k+"="+values[k])
	}
	for _, c := range []struct{ tag, want string }{
		{"${c16a.dsn}", values["c16a.dsn"]}, {"${c16a.dsn:none}", values["c16a.dsn"]}, {"Bearer ${c16a.token}!", "Bearer " + values["c16a.token"] + "!"},
		{"${${c16a.which}.dsn:none}", values["c16a.dsn"]}, {"${c16a.plain}-${c16a.absent:k=v}", "plain-k=v"},
	} {
		obj := structWith(&kit.Decoys{}, reflect.TypeOf(""), "value", c.tag)
		out := kit.RunApp(app.SetConfigLoader(loader.NewArgsLoader(args)), app.SetComponents(obj.Interface()))
		got := obj.Elem().FieldByName("F").String()
		if !out.OK() || got != c.want {
			kit.DumpReplay("c16-command-line-values", map[string]any{"tag": c.tag, "args": args, "field": got, "want": c.want, "outcome": fmt.Sprint(out)})
			t.Fatalf("C16: value:%q with the command line %v gives %q (%v); the configured values give %q", c.tag, args, got, out, c.want)
		}
		kit.Rec.Case("args "+c.tag, true, "command-line-values")
	}
}

func TestRetryAfterSet(t *testing.T) {
	kit.Rec.Rule(rule)
	rapid.Check(t, func(t *rapid.T) {
		cfg := map[string]any{}
		steps := rapid.IntRange(1, 3).Draw(t, "steps")
		lc := &LazyCfg{}
		cb := &countingBinder{ViperBinder: binder.NewViperBinder("yaml"), budget: 100000}
		out := kit.RunApp(app.SetConfigBinder(cb), app.SetConfigLoader(loader.NewRawLoader([]byte("pad: 1\n"))), app.SetComponents(lc))
		if !out.OK() {
			t.Fatalf("C16: start failed: %v", out)
		}
		var hist []string
		for i := 0; i < steps; i++ {
			// complete / change the configuration through the public Set
			for _, k := range []string{"port", "host", "path"} {
				if rapid.IntRange(0, 2).Draw(t, "set"+k) == 0 {
					var v any
					switch k {
					case "port":
						v = rapid.IntRange(1, 9999).Draw(t, "port")
					case "host":
						v = rapid.SampledFrom([]string{"go-kid.org", "h.x"}).Draw(t, "host")
					default:
						v = rapid.SampledFrom([]string{"v1/", "p/"}).Draw(t, "path")
					}
					out.App.Set("c16r."+k, v)
					cfg["c16r."+k] = v
					hist = append(hist, fmt.Sprintf("set %s=%v", k, v))
				}
			}
			if rapid.IntRange(0, 2).Draw(t, "otherapp") == 0 {
				// another App of this process starts meanwhile, with other values under the very same keys: each App
				// resolves placeholders in its own configuration
				other := &LazyCfg{}
				o := kit.RunApp(app.SetConfigLoader(loader.NewRawLoader([]byte("c16r:\n  port: 1\n  host: other.example.org\n  path: other/\n"))), app.SetComponents(other))
				if !o.OK() {
					t.Fatalf("C16: the other App failed to start: %v", o)
				}
				if _, err := o.App.GetComponentByName("lazy-cfg"); err != nil || other.Port != 1 || other.URL != "http://other.example.org:1/other/api" {
					t.Fatalf("C16: the other App's component holds Port=%d URL=%q (err %v), its configuration gives 1 and http://other.example.org:1/other/api\nhistory %v", other.Port, other.URL, err, hist)
				}
				hist = append(hist, "other app started")
			}
			got, err := out.App.GetComponentByName("lazy-cfg")
			hist = append(hist, fmt.Sprintf("lookup err=%v", err != nil))
			_, hasPort := cfg["c16r.port"]
			if !hasPort {
				if err == nil {
					t.Fatalf("C16: required ${c16r.port} is absent, yet the lookup succeeded with %+v\nhistory %v", got, hist)
				}
				continue
			}
			if err != nil {
				t.Fatalf("C16: c16r.port is configured now (%v) but the lookup still fails: %v\nhistory %v", cfg["c16r.port"], err, hist)
			}
			r := &ref{cfg: cfg}
			wantURL, _ := r.resolve("http://${c16r.host:localhost}:${c16r.port:80}/${c16r.path:}api", map[string]bool{})
			if lc.Port != cfg["c16r.port"].(int) || lc.URL != wantURL {
				t.Fatalf("C16: after %v the component holds Port=%d URL=%q, the configuration gives Port=%v URL=%q", hist, lc.Port, lc.URL, cfg["c16r.port"], wantURL)
			}
			break // created: later Sets do not re-bind a published singleton
		}
		kit.Rec.Case(strings.Join(hist, ";"), len(hist) >= 3, "retry-after-set")
	})
}

func init() {
	// the process environment is no configuration source: variables spelled like the keys used here (and like their
	// first segments) must not matter
	for _, k := range []string{"K0", "K1", "K2", "K3", "K4", "G", "G_A", "G_B", "SEL", "SEL_ONE", "SEL_TWO", "EM", "EL", "ZZ", "NOPE", "S1", "S2", "TBL", "TBL_ONE", "N", "M", "SFX", "C16R", "C16R_PORT", "C16R_HOST", "C16R_PATH"} {
		os.Setenv(k, "from-the-environment")
	}
}
