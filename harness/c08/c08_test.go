package c08

import (
	"fmt"
	"github.com/go-kid/ioc/component_definition"
	"github.com/go-kid/ioc/container/processors"
	"strings"
	"testing"

	"pgregory.net/rapid"
	"verif/harness/graph"
	"verif/harness/kit"
	"verif/harness/model"
	"verif/harness/pop"
)

func TestMain(m *testing.M) { kit.Main(m) }

const rule = "provider populations with drawn qualifier in {no method, \"\", g1, g2, g3}, Primary / named / unnamed attributes x consumers with 1-4 fields (single or slice, qualifier set drawn from {\"\", g1, g2, g3, gX} or none, required or optional, optional-without-candidate fields placed before others); oracle = model checked per field (qualifier membership, unique Primary, else unique unnamed, ties accepted within the top rank); non-trivial = a holder with >=2 fields where a narrowing field follows an optional field without candidates, or a single point with >=3 qualified survivors; distinct by scenario shape; since rounds 7/8 also two provider types that print the same (one Primary), lazy nodes populated after another container started, and a user post-processor requesting the EMPTY qualifier set through Property.SetArg"

var kinds = []int{0, 1, 2, 2, 3, 3, 4, 6, 7, 8, 10, 13, 14, 20, 20, 21, 24, 24, 25, 25, 26, 26} // 13/14 zero-size, 20 zero-size with qualifier g1, 21 zero-size with g1 and Primary
var names = []string{"n1", "n2", "n3", "n4", "g1", "g2", "gX"}                                  // some custom names coincide with qualifier values
var quals = []string{"", "g1", "g2", "g3", "g1", "g2", "G1", "g1"}                              // includes a variant that differs in letter case only

func genField(t *rapid.T, provs []pop.ProvSpec, forceEmptyOptional bool) pop.FieldSpec {
	typ := pop.DrawFieldType(t, provs, rapid.IntRange(0, 2).Draw(t, "slice") == 0)
	if forceEmptyOptional {
		return pop.FieldSpec{Type: typ, Tag: `wire:",qualifier=gX,required=false"`}
	}
	args := ""
	// now and then other arguments are written in front of the qualifier (a bare flag, a named one): they do not
	// change which components the qualifier admits
	switch rapid.IntRange(0, 5).Draw(t, "leadingarg") {
	case 0:
		args += ",note"
	case 1:
		args += ",note=a b"
	}
	switch rapid.IntRange(0, 5).Draw(t, "qkind") {
	case 0:
	case 1:
		args += ",qualifier="
	default:
		n := rapid.IntRange(1, 3).Draw(t, "nq")
		qs := rapid.SliceOfNDistinct(rapid.SampledFrom([]string{"g1", "g2", "g3", "gX", "G1"}), n, n, rapid.ID[string]).Draw(t, "qs")
		args += ",qualifier=" + strings.Join(qs, " ")
	}
	if rapid.IntRange(0, 2).Draw(t, "optional") > 0 {
		args += ",required=false"
	}
	switch rapid.IntRange(0, 7).Draw(t, "pointkind") {
	case 0:
		// by name AND qualified: the named component must also carry a requested qualifier
		if !strings.HasPrefix(typ, "[]") && len(provs) > 0 {
			p := rapid.SampledFrom(provs).Draw(t, "namedtarget")
			return pop.FieldSpec{Type: typ, Tag: fmt.Sprintf(`wire:"%s%s"`, pop.RegisteredName(p), args)}
		}
	case 1, 2:
		// func points are narrowed exactly like wire points
		return pop.FieldSpec{Type: typ, Tag: fmt.Sprintf(`func:"Comp,returns=*%s"`, args)}
	}
	return pop.FieldSpec{Type: typ, Tag: fmt.Sprintf(`wire:"%s"`, args)}
}

// QualEraser is a user post-processor that runs in front of the matching processors and, through the public
// Property.SetArg, requests the EMPTY qualifier set for some points ("no plug-in group is enabled in this profile"):
// nothing qualifies - an optional point stays empty, a required one fails the start.
type QualEraser struct {
	processors.DefaultInstantiationAwareComponentPostProcessor
	fields map[string]bool
}

func (*QualEraser) Naming() string { return "aa-qual-eraser" }
func (*QualEraser) Priority()      {}
func (*QualEraser) Order() int     { return -10 }
func (*QualEraser) PostProcessAfterInstantiation(c any, n string) (bool, error) {
	return true, nil
}
func (q *QualEraser) PostProcessProperties(ps []*component_definition.Property, c any, n string) ([]*component_definition.Property, error) {
	for _, p := range ps {
		if p.Tag == "wire" && q.fields[p.StructField.Name] {
			p.SetArg(component_definition.ArgQualifier)
		}
	}
	return nil, nil
}

func TestNarrowing(t *testing.T) {
	kit.Rec.Rule(rule)
	rapid.Check(t, func(t *rapid.T) {
		s := &pop.Scenario{}
		s.Provs = pop.GenProviders(t, pop.ProvOpts{Kinds: kinds, Min: 2, Max: 9, Quals: quals, Names: names})
		nc := rapid.IntRange(1, 2).Draw(t, "ncons")
		for k := 0; k < nc; k++ {
			nf := rapid.IntRange(1, 4).Draw(t, "nfields")
			var c pop.ConsSpec
			for i := 0; i < nf; i++ {
				c.Fields = append(c.Fields, genField(t, s.Provs, i < nf-1 && rapid.IntRange(0, 3).Draw(t, "emptyopt") == 0))
			}
			// a configuration point next to the component points (other property group of the same holder)
			for nd := rapid.SampledFrom([]int{0, 1, 1, 2}).Draw(t, "ndecoys"); nd > 0; nd-- {
				pos := rapid.IntRange(0, len(c.Fields)).Draw(t, "cfgpos")
				f := pop.DrawDecoyField(t)
				c.Fields = append(c.Fields[:pos], append([]pop.FieldSpec{f}, c.Fields[pos:]...)...)
			}
			s.Cons = append(s.Cons, c)
		}
		s.Finish(t)
		in := s.Instantiate()
		switch rapid.IntRange(0, 3).Draw(t, "observer") {
		case 0: // observing post-processors sorted in front of the built-in wiring processors
			in.Extra = append(in.Extra, &graph.PriorityObsPP{ObsPP: graph.ObsPP{Tag: "c08p", Log: in.Log, NoBudget: true}})
		case 1:
			in.Extra = append(in.Extra, &graph.OrderedObsPP{ObsPP: graph.ObsPP{Tag: "c08o", Log: in.Log, OrderV: 1, NoBudget: true}})
		}
		// now and then a user post-processor requests the empty qualifier set for the consumers' field F1 / F2
		model.AdjustPoint = nil
		erased := ""
		if rapid.IntRange(0, 5).Draw(t, "eraser") == 0 {
			erased = rapid.SampledFrom([]string{"F0", "F1", "F2"}).Draw(t, "erasedfield")
			in.Extra = append(in.Extra, &QualEraser{fields: map[string]bool{erased: true}})
			model.AdjustPoint = func(p *model.Point) {
				if p.Tag == "wire" && p.Field.Name == erased {
					p.Args["qualifier"] = []string{}
				}
			}
		}
		in.Run()
		model.AdjustPoint = nil
		desc := s.Shape()
		if erased != "" {
			desc += " empty-qualifier-set-on=" + erased
		}
		if in.Out.Panic != nil {
			t.Fatalf("C08: start-up panicked: %v\nscenario: %s", in.Out.Panic, desc)
		}
		g := in.G
		verdict := g.WiringVerdict()
		switch verdict {
		case model.MustSucceed:
			if in.Out.Err != nil {
				t.Fatalf("C08: every required point keeps a candidate after narrowing, yet start-up failed: %v\nscenario: %s", in.Out, desc)
			}
		case model.MustFail:
			if in.Out.Err == nil {
				un, _ := g.Unsatisfied()
				t.Fatalf("C08: required point(s) %v keep no candidate after qualifier narrowing, yet start-up succeeded\nscenario: %s", un, desc)
			}
		}
		labels := []string{"verdict/" + verdict.String()}
		nt := false
		if in.Out.Err == nil {
			if err := graph.CheckWiringOpt(g, graph.WiringOpts{Complete: true, Rank: true}); err != nil {
				t.Fatalf("C08: %v\nscenario: %s\nreg %v ordmode %d seed %x", err, desc, s.RegPerm, s.OrdMode, s.OrdSeed)
			}
			for k, c := range s.Cons {
				if err := pop.CheckDecoys(in.Comps[s.ConsumerIndex(k)], c); err != nil {
					t.Fatalf("C08: %v\nscenario: %s", err, desc)
				}
			}
			for _, c := range g.Pop {
				if c.ID < 0 {
					continue
				}
				emptyOptBefore := false
				for _, p := range g.Points[c] {
					_, hasQ := p.Args["qualifier"]
					if emptyOptBefore && len(p.Cands) > 0 && (hasQ || (!p.Multi && len(p.Cands) > 1)) {
						nt = true
						labels = append(labels, "narrowing-after-empty-optional")
					}
					if !p.Required && len(p.Cands) == 0 {
						emptyOptBefore = true
					}
					if !p.Multi && len(p.Cands) >= 3 {
						nt = true
						labels = append(labels, "single>=3-survivors")
					}
					if !p.Multi && len(p.Cands) > 1 {
						switch {
						case len(p.Top) > 1:
							labels = append(labels, "tie")
						case p.Top[0].Primary:
							labels = append(labels, "unique-primary-wins")
						case !p.Top[0].Named:
							labels = append(labels, "unique-unnamed-wins")
						}
					}
					if hasQ && p.Multi && len(p.Cands) > 0 {
						labels = append(labels, "qualified-slice")
					}
				}
			}
		}
		kit.Rec.Case(desc, nt, dedup(labels)...)
	})
}

func dedup(xs []string) []string {
	m := map[string]bool{}
	var out []string
	for _, x := range xs {
		if !m[x] {
			m[x] = true
			out = append(out, x)
		}
	}
	return out
}

// TestLazyAfterOtherContainer: lazy components are populated after ANOTHER container of this process has started
// (same types, partly the same names): they are wired from their own container, completely.
func TestLazyAfterOtherContainer(t *testing.T) {
	kit.Rec.Rule(rule)
	rapid.Check(t, func(t *rapid.T) {
		desc, labels, nt := graph.LazyAfterOther(t, "C08", true)
		kit.Rec.Case(desc, nt, labels...)
	})
}
