package zoo

// Provider zoo for the population checks (C06, C07, C08, C10): a few concrete
// types with overlapping interfaces; method presence (Qualifier, Primary,
// LazyInit, Comp) varies by type, everything else is data.

type PCore struct{ B *Beh }

func (c *PCore) Beh() *Beh      { return c.B }
func (c *PCore) Naming() string { return c.B.Alias }

type QCore struct{ PCore }

func (c *QCore) Qualifier() string { return c.B.Mask }

type IAll interface{ Beh() *Beh }
type IA interface {
	IAll
	isA()
}
type IB interface {
	IAll
	isB()
}
type IAB interface {
	IAll
	isAB()
}
type IC interface {
	IAll
	isC()
}
type IComp interface {
	IAll
	Comp() string
}

// PA: no Qualifier method. IA, IAB.
type PA struct{ PCore }

func (*PA) isA()  {}
func (*PA) isAB() {}

// PA2: same shape as PA, different type (pointer exactness).
type PA2 struct{ PCore }

func (*PA2) isA()  {}
func (*PA2) isAB() {}

// PB: Qualifier. IB, IAB.
type PB struct{ QCore }

func (*PB) isB()  {}
func (*PB) isAB() {}

// PC: Qualifier + Primary. IC, IAB, IA.
type PC struct{ QCore }

func (*PC) isC()     {}
func (*PC) isAB()    {}
func (*PC) isA()     {}
func (*PC) Primary() {}

// PD: Qualifier + LazyInit. IB.
type PD struct{ QCore }

func (*PD) isB()      {}
func (*PD) LazyInit() {}

// PE: Comp() string. IA, IComp.
type PE struct{ PCore }

func (*PE) isA()           {}
func (p *PE) Comp() string { return p.B.Comp }

// PF: Comp() without result, Qualifier. IB.
type PF struct{ QCore }

func (*PF) isB()  {}
func (*PF) Comp() {}

// PG: Comp() string + Primary + Qualifier. IA, IB, IComp.
type PG struct{ QCore }

func (*PG) isA()           {}
func (*PG) isB()           {}
func (*PG) Primary()       {}
func (p *PG) Comp() string { return p.B.Comp }

// PH: a provider that is itself a holder and a candidate of its own fields.
type PH struct {
	QCore
	Peer  IA   `wire:",required=false"`
	Peers []IA `wire:",required=false"`
	Self  *PH  `wire:",required=false"`
}

func (*PH) isA()  {}
func (*PH) isAB() {}

// PHR: like PH with a required single-valued point it is itself a candidate for.
type PHR struct {
	QCore
	Peer IA `wire:""`
}

func (*PHR) isA() {}

// PHQ: qualified, primary-narrowed point it is itself a candidate for.
type PHQ struct {
	QCore
	Peer IAB `wire:",qualifier=g1 g2,required=false"`
}

func (*PHQ) isAB()    {}
func (*PHQ) Primary() {}

type ProviderKind struct {
	NoName  bool   // the type has no Naming method: at most one (unnamed) instance
	DefName string // default registration name when it is not "verif/harness/zoo/<Name>" (kinds sharing it share the one unnamed slot)
	Name    string
	HasQual bool
	HasComp bool // Comp() string
	New     func(b *Beh) any
}

var ProviderKinds = []ProviderKind{
	{Name: "PA", HasQual: false, HasComp: false, New: func(b *Beh) any { c := &PA{PCore{b}}; b.Self = c; return c }},
	{Name: "PA2", HasQual: false, HasComp: false, New: func(b *Beh) any { c := &PA2{PCore{b}}; b.Self = c; return c }},
	{Name: "PB", HasQual: true, HasComp: false, New: func(b *Beh) any { c := &PB{QCore{PCore{b}}}; b.Self = c; return c }},
	{Name: "PC", HasQual: true, HasComp: false, New: func(b *Beh) any { c := &PC{QCore{PCore{b}}}; b.Self = c; return c }},
	{Name: "PD", HasQual: true, HasComp: false, New: func(b *Beh) any { c := &PD{QCore{PCore{b}}}; b.Self = c; return c }},
	{Name: "PE", HasQual: false, HasComp: true, New: func(b *Beh) any { c := &PE{PCore{b}}; b.Self = c; return c }},
	{Name: "PF", HasQual: true, HasComp: false, New: func(b *Beh) any { c := &PF{QCore{PCore{b}}}; b.Self = c; return c }},
	{Name: "PG", HasQual: true, HasComp: true, New: func(b *Beh) any { c := &PG{QCore{PCore{b}}}; b.Self = c; return c }},
	{Name: "PH", HasQual: true, HasComp: false, New: func(b *Beh) any { c := &PH{QCore: QCore{PCore{b}}}; b.Self = c; return c }},
	{Name: "PHR", HasQual: true, HasComp: false, New: func(b *Beh) any { c := &PHR{QCore: QCore{PCore{b}}}; b.Self = c; return c }},
	{Name: "PHQ", HasQual: true, HasComp: false, New: func(b *Beh) any { c := &PHQ{QCore: QCore{PCore{b}}}; b.Self = c; return c }},
}

// PN: several instances (distinguished only by custom names) wire each other by name.
type PN struct {
	QCore
	Buddy IA  `wire:"n1,required=false"`
	Pal   *PN `wire:"n2,required=false"`
	Any   any `wire:"n3,required=false"`
}

func (*PN) isA() {}

// PNR: like PN with a required by-name pointer to a sibling type instance.
type PNR struct {
	QCore
	Pal *PNR `wire:"n2"`
}

func (*PNR) isA() {}

func init() {
	ProviderKinds = append(ProviderKinds,
		ProviderKind{Name: "PN", HasQual: true, New: func(b *Beh) any { c := &PN{QCore: QCore{PCore{b}}}; b.Self = c; return c }},
		ProviderKind{Name: "PNR", HasQual: true, New: func(b *Beh) any { c := &PNR{QCore: QCore{PCore{b}}}; b.Self = c; return c }},
	)
}

// Zero-size providers: distinct components whose pointers share one address (the Go runtime gives
// every zero-size allocation the same address), so identity by address alone cannot tell them apart.
type IZst interface{ isZst() }

type PZ1 struct{}
type PZ2 struct{}
type PZ3 struct{}

func (*PZ1) isZst() {}
func (*PZ2) isZst() {}
func (*PZ3) isZst() {}

func init() {
	ProviderKinds = append(ProviderKinds,
		ProviderKind{Name: "PZ1", NoName: true, New: func(b *Beh) any { return &PZ1{} }},
		ProviderKind{Name: "PZ2", NoName: true, New: func(b *Beh) any { return &PZ2{} }},
		ProviderKind{Name: "PZ3", NoName: true, New: func(b *Beh) any { return &PZ3{} }},
	)
}

// PNE: by-name points declared in an embedded struct whose TYPE NAME is unexported.
type pneBase struct {
	Buddy IA  `wire:"n1,required=false"`
	Any   any `wire:"n2,required=false"`
}
type PNE struct {
	QCore
	pneBase
}

func (*PNE) isA() {}

func init() {
	ProviderKinds = append(ProviderKinds, ProviderKind{Name: "PNE", HasQual: true, New: func(b *Beh) any { c := &PNE{QCore: QCore{PCore{b}}}; b.Self = c; return c }})
}

// PLP: a provider (IA, IAB) that is also a pass-through component post-processor AND LazyInit: three roles at once.
type PLP struct{ QCore }

func (*PLP) isA()                                                         {}
func (*PLP) isAB()                                                        {}
func (*PLP) LazyInit()                                                    {}
func (*PLP) PostProcessBeforeInitialization(c any, n string) (any, error) { return c, nil }
func (*PLP) PostProcessAfterInitialization(c any, n string) (any, error)  { return c, nil }

// Zero-size providers WITH selection attributes: PZQ carries the qualifier g1, PZR carries g1 and is Primary.
type PZQ struct{}
type PZR struct{}

func (*PZQ) isZst()            {}
func (*PZR) isZst()            {}
func (*PZQ) Qualifier() string { return "g1" }
func (*PZR) Qualifier() string { return "g1" }
func (*PZR) Primary()          {}

// ExtraProviderKinds are appended by the pop package after the alt-package kinds (indices 19, 20, 21).
var ExtraProviderKinds = []ProviderKind{
	{Name: "PLP", HasQual: true, New: func(b *Beh) any { c := &PLP{QCore{PCore{b}}}; b.Self = c; return c }},
	{Name: "PZQ", NoName: true, HasQual: true, New: func(b *Beh) any { return &PZQ{} }},
	{Name: "PZR", NoName: true, HasQual: true, New: func(b *Beh) any { return &PZR{} }},
}

// PNM: two by-name points with the SAME Go field name, one in each of two embedded mix-ins (and a third, shadowing
// one, on the component itself).
type MixA struct {
	Dep IA `wire:"n1,required=false"`
}
type MixB struct {
	Dep IA `wire:"n2,required=false"`
}
type PNM struct {
	QCore
	MixA
	MixB
	Dep any `wire:"n3,required=false"`
}

func (*PNM) isA() {}

func init() {
	ExtraProviderKinds = append(ExtraProviderKinds, ProviderKind{Name: "PNM", HasQual: true, New: func(b *Beh) any { c := &PNM{QCore: QCore{PCore{b}}}; b.Self = c; return c }}) // 22
}

// PNP: by-name points on a component that is itself a (pass-through, non-lazy) component post-processor.
type PNP struct {
	QCore
	Buddy IA  `wire:"n1,required=false"`
	Any   any `wire:"n2,required=false"`
}

func (*PNP) isA()                                                         {}
func (*PNP) PostProcessBeforeInitialization(c any, n string) (any, error) { return c, nil }
func (*PNP) PostProcessAfterInitialization(c any, n string) (any, error)  { return c, nil }

// PLK: an ordinary provider with a look-alike method: Primary() bool is NOT the Primary marker (Primary()).
type PLK struct{ QCore }

func (*PLK) isA()          {}
func (*PLK) isAB()         {}
func (*PLK) Primary() bool { return false }

func init() {
	ExtraProviderKinds = append(ExtraProviderKinds,
		ProviderKind{Name: "PNP", HasQual: true, New: func(b *Beh) any { c := &PNP{QCore: QCore{PCore{b}}}; b.Self = c; return c }}, // 23
		ProviderKind{Name: "PLK", HasQual: true, New: func(b *Beh) any { c := &PLK{QCore{PCore{b}}}; b.Self = c; return c }},        // 24
	)
}

// PSP / PSN: two DIFFERENT component types that PRINT the same - function-local types of one name here; in an
// application billing/v1.Store and shipping/v1.Store, both "*v1.Store". PSP is Primary, PSN is not. (Their default
// registration name is the same too, so at most one of all their instances is unnamed.)
type twinCore struct{ QCore }

func (*twinCore) isA()  {}
func (*twinCore) isAB() {}

type primaryMark struct{}

func (*primaryMark) Primary() {}

func newTwinPrimary(b *Beh) any {
	type twin struct {
		twinCore
		primaryMark
	}
	c := &twin{twinCore: twinCore{QCore{PCore{b}}}}
	b.Self = c
	return c
}

func newTwinPlain(b *Beh) any {
	type twin struct {
		twinCore
	}
	c := &twin{twinCore: twinCore{QCore{PCore{b}}}}
	b.Self = c
	return c
}

func init() {
	ExtraProviderKinds = append(ExtraProviderKinds,
		ProviderKind{Name: "PSP", DefName: "verif/harness/zoo/twin", HasQual: true, New: newTwinPrimary}, // 25
		ProviderKind{Name: "PSN", DefName: "verif/harness/zoo/twin", HasQual: true, New: newTwinPlain},   // 26
	)
}

// PMAP / PSLICE: components that are pointers to NAMED NON-STRUCT types (a named map, a named slice): they have
// no fields to scan but are components like any other (IA, IAB).
type PMAP map[string]*Beh
type PSLICE []*Beh

func (p *PMAP) Beh() *Beh        { return (*p)["b"] }
func (p *PMAP) Naming() string   { return (*p)["b"].Alias }
func (*PMAP) isA()               {}
func (*PMAP) isAB()              {}
func (p *PSLICE) Beh() *Beh      { return (*p)[0] }
func (p *PSLICE) Naming() string { return (*p)[0].Alias }
func (*PSLICE) isA()             {}
func (*PSLICE) isB()             {}

func init() {
	ExtraProviderKinds = append(ExtraProviderKinds,
		ProviderKind{Name: "PMAP", New: func(b *Beh) any { c := &PMAP{"b": b}; b.Self = c; return c }}, // 27
		ProviderKind{Name: "PSLICE", New: func(b *Beh) any { c := &PSLICE{b}; b.Self = c; return c }},  // 28
	)
}
