// Package zoo is the static "type zoo": provider / graph-node types whose method
// sets and struct tags are fixed at compile time while everything else (names,
// qualifiers, callback behaviour, event log) is data chosen per scenario.
// nodes_gen.go is emitted by gen.py (deterministic, checked in).
package zoo

import (
	"errors"
	"fmt"
	"github.com/go-kid/ioc/container"
	"reflect"
	"strings"
	"sync"
	"sync/atomic"
)

// K is the number of node indices of the graph family.
const K = 6

// ZN is the size of the scale family.
const ZN = 200

type Event struct {
	Kind string // "aps", "init", "before", "after", "early", "run", "close"
	ID   int    // scenario-local id of the component (-1 unknown)
	Name string
	Snap []string // names of tagged fields that were non-zero when the event fired
	Note string
}

func (e Event) String() string {
	s := fmt.Sprintf("%s(%d)", e.Kind, e.ID)
	if e.Note != "" {
		s += "[" + e.Note + "]"
	}
	return s
}

type Log struct {
	mu     sync.Mutex
	Events []Event
}

func (l *Log) Add(e Event) {
	if l == nil {
		return
	}
	l.mu.Lock()
	l.Events = append(l.Events, e)
	l.mu.Unlock()
}

func (l *Log) Snapshot() []Event {
	if l == nil {
		return nil
	}
	l.mu.Lock()
	defer l.mu.Unlock()
	return append([]Event(nil), l.Events...)
}

// Fault modes of a callback.
const (
	NoFault = iota
	FailAlways
	FailOnce
	FailPanic // the callback panics half way (an index out of range, a nil map...)
)

// InjectedPanic is what a FailPanic callback panics with.
type InjectedPanic struct{ Where string }

var ErrInjected = errors.New("injected fault")

// Beh is the per-instance, per-scenario data behind a zoo component.
type Beh struct {
	ID    int
	Alias string // Naming() result; "" = no custom name
	Mask  string // Qualifier() result
	Log   *Log
	Self  any // the component itself (for snapshots)

	FailAPS, FailInit   int
	APSCalls, InitCalls int
	RunCalls            int
	FailRun             int
	Comp                string // result of Comp() for func-tag providers
	OrderVal            int

	// programmatic lookups performed at the start of Init (public API use from a callback)
	InitLookups []string
	Lookup      func(name string) (any, error)
	Looked      []LookResult
}

type LookResult struct {
	Name string
	Got  any
	Err  error
}

func (b *Beh) fault(mode int, calls int) error {
	switch mode {
	case FailAlways:
		return ErrInjected
	case FailOnce:
		if calls == 1 {
			return ErrInjected
		}
	case FailPanic:
		panic(InjectedPanic{fmt.Sprintf("callback of component %d", b.ID)})
	}
	return nil
}

// Snap lists the tagged (wire/func/value/prop/prefix) exported fields of c that are non-zero.
func Snap(c any) []string {
	var out []string
	for {
		w, isW := c.(*W)
		if !isW {
			break
		}
		c = w.Target // a substitute stands for the component it wraps
	}
	v := reflect.ValueOf(c)
	if v.Kind() == reflect.Pointer {
		v = v.Elem()
	}
	if v.Kind() != reflect.Struct {
		return nil
	}
	var walk func(v reflect.Value)
	walk = func(v reflect.Value) {
		t := v.Type()
		for i := 0; i < t.NumField(); i++ {
			f := t.Field(i)
			if f.Anonymous && f.Tag == "" && f.Type.Kind() == reflect.Struct {
				walk(v.Field(i))
				continue
			}
			tagged := false
			for _, k := range []string{"wire", "func", "value", "prop", "prefix"} {
				if _, ok := f.Tag.Lookup(k); ok {
					tagged = true
				}
			}
			if tagged && !v.Field(i).IsZero() {
				out = append(out, f.Name)
			}
		}
	}
	walk(v)
	return out
}

// Core is embedded (by value) in every zoo component.
type Core struct{ B *Beh }

func (c *Core) Beh() *Beh         { return c.B }
func (c *Core) Naming() string    { return c.B.Alias }
func (c *Core) Qualifier() string { return c.B.Mask }

// Sel is the selector method behind func-tag edges (func:"Sel,returns=<masks>").
func (c *Core) Sel() string { return c.B.Mask }

func (c *Core) AfterPropertiesSet() error {
	c.B.APSCalls++
	c.B.Log.Add(Event{Kind: "aps", ID: c.B.ID, Snap: Snap(c.B.Self)})
	return c.B.fault(c.B.FailAPS, c.B.APSCalls)
}

func (c *Core) Init() error {
	c.B.InitCalls++
	if c.B.Lookup != nil {
		for _, n := range c.B.InitLookups {
			if strings.HasPrefix(n, "?") {
				// an optional collaborator (typically one the container does not know): the failure is tolerated
				_, err := c.B.Lookup(n[1:])
				c.B.Looked = append(c.B.Looked, LookResult{n, nil, err})
				continue
			}
			got, err := c.B.Lookup(n)
			c.B.Looked = append(c.B.Looked, LookResult{n, got, err})
			if err != nil {
				// a callback that cannot get what it asked for fails (no silent retry later)
				c.B.Log.Add(Event{Kind: "init", ID: c.B.ID, Note: "lookup-failed"})
				return err
			}
		}
	}
	c.B.Log.Add(Event{Kind: "init", ID: c.B.ID, Snap: Snap(c.B.Self)})
	return c.B.fault(c.B.FailInit, c.B.InitCalls)
}

// INode is implemented by every graph node, every variant, and by wrappers.
type INode interface{ Beh() *Beh }

// W is the substitute a wrapping post-processor returns. It implements every
// marker interface of the node family so that it is assignable wherever the
// original was injected through an interface.
type W struct {
	Target   any
	TargetID int
	Serial   int
	When     string
}

func (w *W) Beh() *Beh { return w.Target.(INode).Beh() }

// The substitute has initialization methods of its own (they are logged as "waps" / "winit") which then pass the
// call on to the component it wraps - as a decorator does. The container calls them only when the substitute is what
// leaves the before-initialization callbacks.
func (w *W) AfterPropertiesSet() error {
	b := w.Beh()
	b.Log.Add(Event{Kind: "waps", ID: b.ID})
	if t, ok := w.Target.(interface{ AfterPropertiesSet() error }); ok {
		return t.AfterPropertiesSet()
	}
	return nil
}

func (w *W) Init() error {
	b := w.Beh()
	b.Log.Add(Event{Kind: "winit", ID: b.ID})
	if t, ok := w.Target.(interface{ Init() error }); ok {
		return t.Init()
	}
	return nil
}
func (w *W) String() string {
	return fmt.Sprintf("W#%d(of %d,%s)", w.Serial, w.TargetID, w.When)
}

// New instantiates a node of the given variant ('N','R','L','P') and index.
func New(variant byte, idx int, b *Beh) any {
	c := newNode(variant, idx, b)
	b.Self = c
	return c
}

// NewZ instantiates scale-family node idx.
func NewZ(idx int, b *Beh) any {
	c := newZ(idx, b)
	b.Self = c
	return c
}

// MaskName renders a holder bit set as a qualifier string.
func MaskName(bits int) string { return fmt.Sprintf("m%d", bits) }

// Stateless nodes: zero-size struct types (in Go all such objects share one address). They have no injection
// points; their qualifier m63 makes them members of every qualified slice / candidate of every qualified point.
type ST0 struct{}
type ST1 struct{}
type ST2 struct{}

var stBeh = [3]*Beh{{ID: -1, Mask: "m63"}, {ID: -1, Mask: "m63"}, {ID: -1, Mask: "m63"}}

func (*ST0) Beh() *Beh         { return stBeh[0] }
func (*ST1) Beh() *Beh         { return stBeh[1] }
func (*ST2) Beh() *Beh         { return stBeh[2] }
func (*ST0) Qualifier() string { return "m63" }
func (*ST1) Qualifier() string { return "m63" }
func (*ST2) Qualifier() string { return "m63" }

// Stateless returns n (0..3) stateless nodes.
func Stateless(n int) []any { return []any{&ST0{}, &ST1{}, &ST2{}}[:n] }

// Sink has every container role at once: node, application runner, closer, (pass-through) component
// post-processor, factory post-processor and definition scanner. Counters tell which callbacks reached it.
type Sink struct {
	Core
	Runs, Closes, Factories, Scans int32
	RunHook                        func() error
}

func (s *Sink) Run() error {
	atomic.AddInt32(&s.Runs, 1)
	if s.RunHook != nil {
		return s.RunHook()
	}
	return nil
}
func (s *Sink) Close() error                                                 { atomic.AddInt32(&s.Closes, 1); return nil }
func (s *Sink) PostProcessBeforeInitialization(c any, n string) (any, error) { return c, nil }
func (s *Sink) PostProcessAfterInitialization(c any, n string) (any, error)  { return c, nil }
func (s *Sink) PostProcessComponentFactory(f container.Factory) error {
	atomic.AddInt32(&s.Factories, 1)
	return nil
}
func (s *Sink) PostProcessDefinitionRegistry(r container.DefinitionRegistry, c any, n string) error {
	atomic.AddInt32(&s.Scans, 1)
	return nil
}
