package c14

import (
	"context"
	"errors"
	"fmt"
	"github.com/go-kid/ioc/container/support"
	"os"
	"runtime"
	"sync"
	"sync/atomic"
	"testing"
	"time"

	"github.com/go-kid/ioc/app"
	"github.com/go-kid/ioc/container"
	"github.com/go-kid/ioc/definition"
	"pgregory.net/rapid"
	"verif/harness/kit"
)

func TestMain(m *testing.M) { kit.Main(m) }

const rule = "n in 0..12 closer components (a drawn subset returns errors, a drawn subset is lazy) inside an ordinary application; the harness owns the schedule: every Close blocks on its own gate, App.Close runs in a goroutine, gates are opened one at a time in a drawn order and before each opening App.Close must not have returned; when it returns every closer must have been called exactly once and have finished; non-trivial = >=2 closers and (a failing closer or a release order different from the registration order); distinct by (n, failing set, lazy set, release order); since rounds 7/8 also up to 100 closers, Primary closers, errors of the temporary kind, and (own process) a closer registered through app.Settings with a run that brings its own registry; closers that carry the Priority marker or an Order"

type Closer struct {
	name  string
	gate  chan struct{}
	calls int32
	done  int32
	fail  bool
	temp  bool // the failure says it is temporary (a deadline, an interrupted call): still one call per Close
}

// tempErr is an error of the retry-able kind (Temporary() / Timeout() true), like context.DeadlineExceeded.
type tempErr struct{}

func (tempErr) Error() string   { return "closer failed: deadline exceeded" }
func (tempErr) Temporary() bool { return true }
func (tempErr) Timeout() bool   { return true }

// PrimaryCloser is a closer that is also the Primary implementation of whatever it implements (several of them in
// one application: a primary store, a primary cache...).
type PrimaryCloser struct{ Closer }

func (*PrimaryCloser) Primary() {}

// MarkerCloser carries the Priority marker of the ordering contract without an Order method (what embedding
// definition.PriorityComponent gives): a closer like any other.
type MarkerCloser struct{ Closer }

func (*MarkerCloser) Priority() {}

// OrderedCloser takes part in ordering (Close has no order, the closer is still closed once).
type OrderedCloser struct{ Closer }

func (*OrderedCloser) Order() int { return 3 }

func (c *Closer) Naming() string { return c.name }
func (c *Closer) Close() error {
	atomic.AddInt32(&c.calls, 1)
	<-c.gate
	atomic.AddInt32(&c.done, 1)
	if c.fail {
		if c.temp {
			if c.name[len(c.name)-1]%2 == 0 {
				return tempErr{}
			}
			return fmt.Errorf("closing %s: %w", c.name, context.DeadlineExceeded)
		}
		return errors.New("closer failed")
	}
	return nil
}

type LazyCloser struct{ Closer }

func (c *LazyCloser) LazyInit() {}

// AppRefCloser wires the application itself (by type: *app.App is the only container.Factory); its name sorts
// before the App's, so it is created first and pulls the App in while it is itself still in creation.
type AppRefCloser struct {
	Closer
	Fac container.Factory `wire:",required=false"`
}

// CollectorCloser is a closer that collects all closers itself (the container leaves the holder out of its own
// slice); its name sorts before the App's, so its slice is populated before the App's own closer list.
type CollectorCloser struct {
	Closer
	Others []definition.CloserComponent `wire:",required=false"`
}

// MultiCloser has several roles at once: closer, application runner and (pass-through) component post-processor.
type MultiCloser struct {
	Closer
	runs int32
}

func (m *MultiCloser) Run() error                                                   { atomic.AddInt32(&m.runs, 1); return nil }
func (m *MultiCloser) PostProcessBeforeInitialization(c any, n string) (any, error) { return c, nil }
func (m *MultiCloser) PostProcessAfterInitialization(c any, n string) (any, error)  { return c, nil }

// SliceCloser is a closer whose type is not a struct (a named slice registered by pointer; element 0 is its bookkeeping)
type SliceCloser []*Closer

func (s *SliceCloser) Naming() string { return (*s)[0].name }
func (s *SliceCloser) Close() error   { return (*s)[0].Close() }

// FlakyCloser fails its first initialization only; its name sorts behind the App's, so that first attempt is made
// while the App collects its closers. Either the start is refused, or - if it succeeds - the closer is one of the
// registered closers like any other.
type FlakyCloser struct {
	Closer
	inits int32
}

func (f *FlakyCloser) Init() error {
	if atomic.AddInt32(&f.inits, 1) == 1 {
		return errors.New("transient initialization failure")
	}
	return nil
}

// FailRunner makes the runner phase - and therefore Run - fail: the closers exist by then and a clean-up
// Close must reach them all the same.
type FailRunner struct{}

func (*FailRunner) Run() error { return errors.New("runner failed") }

// Stateless closers: zero-size struct types (all such objects share one address in Go).
var zcalls [3]int32
var zgate chan struct{}

type ZCloser0 struct{}
type ZCloser1 struct{}
type ZCloser2 struct{}

func (*ZCloser0) Close() error { atomic.AddInt32(&zcalls[0], 1); <-zgate; return nil }
func (*ZCloser1) Close() error { atomic.AddInt32(&zcalls[1], 1); <-zgate; return nil }
func (*ZCloser2) Close() error {
	atomic.AddInt32(&zcalls[2], 1)
	<-zgate
	return errors.New("stateless closer failed")
}

// Bystander: an ordinary component that is not a closer.
type Bystander struct{ N int }

func TestClose(t *testing.T) {
	kit.Rec.Rule(rule)
	rapid.Check(t, func(t *rapid.T) {
		n := rapid.IntRange(0, 12).Draw(t, "n")
		if rapid.IntRange(0, 9).Draw(t, "many") == 0 {
			n = rapid.IntRange(30, 100).Draw(t, "nmany") // every closer, at every size
		}
		cs := make([]*Closer, n)
		comps := []any{&Bystander{}}
		failing, lazy := 0, 0
		for i := range cs {
			c := &Closer{name: fmt.Sprintf("closer-%02d", i), gate: make(chan struct{}), fail: rapid.IntRange(0, 3).Draw(t, "fail") == 0}
			cs[i] = c
			if c.fail {
				failing++
				c.temp = rapid.IntRange(0, 2).Draw(t, "temporary") == 0
			}
			if rapid.IntRange(0, 4).Draw(t, "primary") == 0 {
				pc := &PrimaryCloser{}
				pc.name, pc.gate, pc.fail, pc.temp = c.name, c.gate, c.fail, c.temp
				cs[i] = &pc.Closer
				comps = append(comps, pc)
				continue
			}
			if k := rapid.IntRange(0, 7).Draw(t, "orderingroles"); k <= 1 {
				if k == 0 {
					mk := &MarkerCloser{}
					mk.name, mk.gate, mk.fail, mk.temp = c.name, c.gate, c.fail, c.temp
					cs[i] = &mk.Closer
					comps = append(comps, mk)
				} else {
					oc := &OrderedCloser{}
					oc.name, oc.gate, oc.fail, oc.temp = c.name, c.gate, c.fail, c.temp
					cs[i] = &oc.Closer
					comps = append(comps, oc)
				}
				continue
			}
			if k := rapid.IntRange(0, 5).Draw(t, "appref"); k == 0 {
				ac := &AppRefCloser{}
				ac.name, ac.gate, ac.fail = c.name, c.gate, c.fail
				ac.temp = c.temp
				cs[i] = &ac.Closer
				comps = append(comps, ac)
				continue
			}
			if i == 0 && rapid.IntRange(0, 2).Draw(t, "collector") == 0 {
				cc := &CollectorCloser{}
				cc.name, cc.gate, cc.fail = "a-collector", c.gate, c.fail // sorts before github.com/go-kid/ioc/app/App
				cc.temp = c.temp
				cs[i] = &cc.Closer
				comps = append(comps, cc)
				continue
			}
			if rapid.IntRange(0, 6).Draw(t, "nonstruct") == 0 {
				sc := &SliceCloser{c}
				comps = append(comps, sc)
				continue
			}
			if rapid.IntRange(0, 5).Draw(t, "multirole") == 0 {
				mc := &MultiCloser{}
				mc.name, mc.gate, mc.fail = c.name, c.gate, c.fail
				mc.temp = c.temp
				cs[i] = &mc.Closer
				comps = append(comps, mc)
				continue
			}
			if rapid.IntRange(0, 4).Draw(t, "lazy") == 0 {
				lazy++
				comps = append(comps, &LazyCloser{Closer: Closer{}})
				lc := comps[len(comps)-1].(*LazyCloser)
				lc.name, lc.gate, lc.fail = c.name, c.gate, c.fail
				lc.temp = c.temp
				cs[i] = &lc.Closer
			} else {
				comps = append(comps, c)
			}
		}
		// stateless (zero-size) closers next to the others
		nz := rapid.IntRange(0, 3).Draw(t, "nzero")
		zgate = make(chan struct{})
		for i := range zcalls {
			atomic.StoreInt32(&zcalls[i], 0)
		}
		for i := 0; i < nz; i++ {
			comps = append(comps, []any{&ZCloser0{}, &ZCloser1{}, &ZCloser2{}}[i])
		}
		// one or two (overlapping) Close calls
		ncalls := rapid.SampledFrom([]int{1, 1, 1, 2}).Draw(t, "closecalls")
		release := rapid.Permutation(seq(n)).Draw(t, "release")
		failRun := rapid.IntRange(0, 4).Draw(t, "failingrunner") == 0
		if failRun {
			comps = append(comps, &FailRunner{})
		}
		comps = rapid.Permutation(comps).Draw(t, "regorder")
		out := kit.RunApp(app.SetComponents(comps...))
		desc := fmt.Sprintf("n=%d failing=%d lazy=%d zero-size=%d closecalls=%d release=%v runner-fails=%v", n, failing, lazy, nz, ncalls, release, failRun)
		if failRun {
			if out.Panic != nil || out.Err == nil {
				t.Fatalf("C14: a runner fails: Run must return an error, got %v (%s)", out, desc)
			}
		} else if !out.OK() {
			t.Fatalf("C14: start failed: %v (%s)", out, desc)
		}
		closed := make(chan struct{})
		var cpanic atomic.Value
		var returned int32
		for k := 0; k < ncalls; k++ {
			go func() {
				defer func() {
					if atomic.AddInt32(&returned, 1) == 1 {
						close(closed) // the FIRST call that returns is the one that must not be early
					}
				}()
				defer func() {
					if r := recover(); r != nil {
						cpanic.Store(fmt.Sprint(r))
					}
				}()
				out.App.Close()
			}()
		}
		if nz > 0 && n == 0 {
			// only stateless closers: they share one gate
			for y := 0; y < 20; y++ {
				runtime.Gosched()
			}
			select {
			case <-closed:
				t.Fatalf("C14: App.Close returned while the stateless closers had not returned yet\n%s", desc)
			default:
			}
		}
		for k, idx := range release {
			// give an early return every chance to show
			for y := 0; y < 20; y++ {
				runtime.Gosched()
			}
			select {
			case <-closed:
				t.Fatalf("C14: App.Close returned while %d closer(s) had not returned yet (closer %d still blocked; panic=%v)\n%s", n-k, idx, cpanic.Load(), desc)
			default:
			}
			close(cs[idx].gate)
			if k == len(release)-1 && nz > 0 {
				for y := 0; y < 20; y++ {
					runtime.Gosched()
				}
				select {
				case <-closed:
					t.Fatalf("C14: App.Close returned while the stateless closers had not returned yet\n%s", desc)
				default:
				}
			}
		}
		close(zgate)
		// all gates are open: every call can finish. Wait for Close.
		select {
		case <-closed:
		case <-time.After(10 * time.Second):
			fin := 0
			for _, c := range cs {
				if atomic.LoadInt32(&c.done) > 0 {
					fin++
				}
			}
			t.Fatalf("C14: App.Close did not return within 10s after every gate was opened (%d of %d closers finished)\n%s", fin, n, desc)
		}
		if p := cpanic.Load(); p != nil {
			t.Fatalf("C14: App.Close panicked: %v\n%s", p, desc)
		}
		// wait for the other overlapping call too (all gates are open)
		deadline := time.Now().Add(10 * time.Second) // every gate is open: all work is finishable
		for atomic.LoadInt32(&returned) < int32(ncalls) {
			if time.Now().After(deadline) {
				t.Fatalf("C14: an overlapping App.Close call did not return within 10s after every gate was opened\n%s", desc)
			}
			runtime.Gosched()
		}
		for i, c := range cs {
			calls, done := atomic.LoadInt32(&c.calls), atomic.LoadInt32(&c.done)
			if calls != int32(ncalls) {
				t.Fatalf("C14: closer %d was invoked %d times by %d Close call(s) (exactly once per call expected; failing=%v)\n%s", i, calls, ncalls, c.fail, desc)
			}
			if done != int32(ncalls) {
				t.Fatalf("C14: App.Close returned before closer %d had returned\n%s", i, desc)
			}
		}
		for i := 0; i < nz; i++ {
			if got := atomic.LoadInt32(&zcalls[i]); got != int32(ncalls) {
				t.Fatalf("C14: stateless closer %d was invoked %d times by %d Close call(s)\n%s", i, got, ncalls, desc)
			}
		}
		inOrder := true
		for i, r := range release {
			if r != i {
				inOrder = false
			}
		}
		var labels []string
		if failing > 0 {
			labels = append(labels, "has-failing")
		}
		if lazy > 0 {
			labels = append(labels, "has-lazy")
		}
		if n == 0 {
			labels = append(labels, "no-closers")
		}
		if n > 32 {
			labels = append(labels, "more-than-32-closers")
		}
		kit.Rec.Case(desc, n >= 2 && (failing > 0 || !inOrder), labels...)
	})
}

func seq(n int) []int {
	r := make([]int, n)
	for i := range r {
		r[i] = i
	}
	return r
}

// TestSlowCloser: one closer stays blocked for seconds (longer than any plausible "slow closer" warning
// threshold the quick tier can afford): App.Close must still be waiting when it finally returns.
func TestSlowCloser(t *testing.T) {
	kit.Rec.Rule(rule)
	hold := 2600 * time.Millisecond
	if kit.Tier() == "thorough" {
		hold = 11 * time.Second
	}
	slow := &Closer{name: "closer-slow", gate: make(chan struct{})}
	quick := &Closer{name: "closer-quick", gate: make(chan struct{}), fail: true}
	close(quick.gate)
	out := kit.RunApp(app.SetComponents(slow, quick, &Bystander{}))
	if !out.OK() {
		t.Fatalf("C14: start failed: %v", out)
	}
	closed := make(chan struct{})
	start := time.Now()
	go func() { defer close(closed); out.App.Close() }()
	select {
	case <-closed:
		kit.DumpReplay("c14-slow-closer", map[string]any{"returned_after": time.Since(start).String(), "hold": hold.String()})
		t.Fatalf("C14: App.Close returned after %v although a closer is still blocked (it is held for %v)", time.Since(start), hold)
	case <-time.After(hold):
	}
	close(slow.gate)
	select {
	case <-closed:
	case <-time.After(10 * time.Second):
		t.Fatalf("C14: App.Close did not return within 10s after the slow closer was released")
	}
	if atomic.LoadInt32(&slow.calls) != 1 || atomic.LoadInt32(&slow.done) != 1 || atomic.LoadInt32(&quick.calls) != 1 {
		t.Fatalf("C14: closers not called exactly once: slow %d/%d quick %d", slow.calls, slow.done, quick.calls)
	}
	kit.Rec.Case(fmt.Sprintf("slow closer held %v next to a failing quick one", hold), true, "slow-closer")
	kit.Rec.Case(fmt.Sprintf("slow closer (tier %s)", kit.Tier()), true, "slow-closer")
}

// ServeRunner is a runner that serves until it is closed (the usual server shape): Run blocks, Close unblocks it.
type ServeRunner struct {
	entered chan struct{}
	stop    chan struct{}
	closes  int32
}

func (s *ServeRunner) Run() error { close(s.entered); <-s.stop; return nil }
func (s *ServeRunner) Close() error {
	if atomic.AddInt32(&s.closes, 1) == 1 {
		close(s.stop)
	}
	return nil
}

// TestCloseWhileRunnerServes: Run is still inside a blocking runner when App.Close is called from another
// goroutine. The closers were registered long before: every one of them is invoked exactly once, Close waits for
// them, and the serving runner - itself a closer - is released so that Run returns.
func TestCloseWhileRunnerServes(t *testing.T) {
	kit.Rec.Rule(rule)
	rapid.Check(t, func(t *rapid.T) {
		n := rapid.IntRange(0, 5).Draw(t, "n")
		srv := &ServeRunner{entered: make(chan struct{}), stop: make(chan struct{})}
		comps := []any{srv, &Bystander{}}
		cs := make([]*Closer, n)
		for i := range cs {
			cs[i] = &Closer{name: fmt.Sprintf("closer-%02d", i), gate: make(chan struct{}), fail: rapid.IntRange(0, 3).Draw(t, "fail") == 0}
			close(cs[i].gate)
			comps = append(comps, cs[i])
		}
		comps = rapid.Permutation(comps).Draw(t, "regorder")
		a := app.NewApp()
		runDone := make(chan error, 1)
		go func() {
			defer func() {
				if r := recover(); r != nil {
					runDone <- fmt.Errorf("panic: %v", r)
				}
			}()
			runDone <- a.Run(app.SetComponents(comps...))
		}()
		select {
		case <-srv.entered:
		case err := <-runDone:
			t.Fatalf("C14: Run returned before the serving runner was entered: %v", err)
		case <-time.After(20 * time.Second):
			t.Fatalf("C14: the serving runner was not entered within 20s")
		}
		closed := make(chan struct{})
		go func() { defer close(closed); a.Close() }()
		select {
		case <-closed:
		case <-time.After(20 * time.Second):
			t.Fatalf("C14: App.Close did not return within 20s although no closer blocks (n=%d)", n)
		}
		for i, c := range cs {
			if calls, done := atomic.LoadInt32(&c.calls), atomic.LoadInt32(&c.done); calls != 1 || done != 1 {
				t.Fatalf("C14: Close was called while a runner is serving: closer %d invoked %d times (returned %d), exactly once expected (n=%d)", i, calls, done, n)
			}
		}
		if got := atomic.LoadInt32(&srv.closes); got != 1 {
			t.Fatalf("C14: the serving runner (a closer) was closed %d times, exactly once expected", got)
		}
		select {
		case err := <-runDone:
			if err != nil {
				t.Fatalf("C14: Run returned %v after the serving runner was closed", err)
			}
		case <-time.After(20 * time.Second):
			t.Fatalf("C14: Run did not return within 20s after the serving runner was closed")
		}
		kit.Rec.Case(fmt.Sprintf("close-while-serving n=%d", n), true, "close-while-runner-serves")
	})
}

// ---- distinct component types that share package path AND type name (declared locally in different functions) ----

func localPlainWorker() any {
	type worker struct{ N int }
	return &worker{N: 1}
}

func localClosingWorker(c *Closer) any {
	type worker struct{ *Closer }
	return &worker{c}
}

func localClosingJob(c *Closer) any {
	type job struct{ *Closer }
	return &job{c}
}

func localPlainJob() any {
	type job struct{ N int }
	return &job{N: 2}
}

// TestLocalTypesSharingAName: containers of one process whose components have different types with the same package
// path and type name - one of them a closer, the other not, in both orders. Whether something is a closer is a
// matter of its own type in its own container.
func TestLocalTypesSharingAName(t *testing.T) {
	kit.Rec.Rule(rule)
	open := func(name string) *Closer {
		c := &Closer{name: name, gate: make(chan struct{})}
		close(c.gate)
		return c
	}
	runAndClose := func(what string, comps ...any) {
		out := kit.RunApp(app.SetComponents(comps...))
		if !out.OK() {
			kit.DumpReplay("c14-local-types", map[string]any{"step": what, "outcome": out.String()})
			t.Fatalf("C14: %s: start failed: %v", what, out)
		}
		if p := kit.Protect(func() { out.App.Close() }); p != nil {
			kit.DumpReplay("c14-local-types", map[string]any{"step": what, "panic": fmt.Sprint(p)})
			t.Fatalf("C14: %s: Close panicked: %v", what, p)
		}
	}
	expect := func(what string, cs ...*Closer) {
		for _, c := range cs {
			if calls := atomic.LoadInt32(&c.calls); calls != 1 {
				kit.DumpReplay("c14-local-types", map[string]any{"step": what, "closer": c.name, "calls": calls})
				t.Fatalf("C14: %s: closer %q was invoked %d times, exactly once expected", what, c.name, calls)
			}
		}
	}
	// pair 1: the plain type is seen first, the closing type of the same name in a later container
	pk := open("pkg-level-1")
	runAndClose("container 1 (plain local worker)", localPlainWorker(), pk)
	expect("container 1", pk)
	w, pk2 := open("local-worker"), open("pkg-level-2")
	runAndClose("container 2 (closing local worker)", localClosingWorker(w), pk2)
	expect("container 2", w, pk2)
	// pair 2: the other way round
	j, pk3 := open("local-job"), open("pkg-level-3")
	runAndClose("container 3 (closing local job)", localClosingJob(j), pk3)
	expect("container 3", j, pk3)
	pk4 := open("pkg-level-4")
	runAndClose("container 4 (plain local job)", localPlainJob(), pk4)
	expect("container 4", pk4)
	kit.Rec.Case("local types sharing a name: plain then closing", true, "same-named-local-types")
	kit.Rec.Case("local types sharing a name: closing then plain", true, "same-named-local-types")
}

// TestFlakyCloser: a closer whose first initialization fails (and whose name sorts behind the App's). The start may
// be refused; when it is not, App.Close reaches that closer like every other one.
func TestFlakyCloser(t *testing.T) {
	kit.Rec.Rule(rule)
	rapid.Check(t, func(t *rapid.T) {
		n := rapid.IntRange(0, 4).Draw(t, "others")
		mk := func(name string) *Closer {
			c := &Closer{name: name, gate: make(chan struct{})}
			close(c.gate)
			return c
		}
		fl := &FlakyCloser{Closer: *mk(rapid.SampledFrom([]string{"z-flaky", "h-flaky", "zz"}).Draw(t, "name"))}
		comps := []any{fl, &Bystander{}}
		var cs []*Closer
		for i := 0; i < n; i++ {
			c := mk(fmt.Sprintf("closer-%02d", i))
			cs = append(cs, c)
			comps = append(comps, c)
		}
		comps = rapid.Permutation(comps).Draw(t, "regorder")
		out := kit.RunApp(app.SetComponents(comps...))
		desc := fmt.Sprintf("flaky closer %q + %d others", fl.name, n)
		if out.Panic != nil {
			t.Fatalf("C14: %s: panic %v", desc, out.Panic)
		}
		if out.Err != nil {
			kit.Rec.Case(desc+" (start refused)", false, "flaky-closer-start-refused")
			return
		}
		out.App.Close()
		if calls := atomic.LoadInt32(&fl.calls); calls != 1 {
			t.Fatalf("C14: %s: the start succeeded (the closer was initialised at the %d. attempt), yet App.Close invoked it %d times", desc, atomic.LoadInt32(&fl.inits), calls)
		}
		for i, c := range cs {
			if calls := atomic.LoadInt32(&c.calls); calls != 1 {
				t.Fatalf("C14: %s: closer %d invoked %d times", desc, i, calls)
			}
		}
		kit.Rec.Case(desc, true, "flaky-closer-started")
	})
}

// TestGlobalSettingsCloser: a closer registered process-wide (app.Settings(app.SetComponents(..))) belongs to every
// App of the process, whatever the App's own options are - also options that bring their own registry. It runs in
// a process of its own (VERIF_GLOBAL_SETTINGS=1).
var (
	gCloser     = &Closer{name: "global-closer"}
	gCloserOnce sync.Once
)

func TestGlobalSettingsCloser(t *testing.T) {
	if os.Getenv("VERIF_GLOBAL_SETTINGS") != "1" {
		t.Skip("changes process-wide settings: runs in a process of its own")
	}
	kit.Rec.Rule(rule)
	open := make(chan struct{})
	close(open)
	gCloser.gate = open
	gCloserOnce.Do(func() { app.Settings(app.SetComponents(gCloser)) })
	rapid.Check(t, func(t *rapid.T) {
		n := rapid.IntRange(0, 3).Draw(t, "n")
		var cs []*Closer
		comps := []any{&Bystander{}}
		for i := 0; i < n; i++ {
			c := &Closer{name: fmt.Sprintf("closer-%02d", i), gate: open, fail: rapid.IntRange(0, 3).Draw(t, "fail") == 0}
			cs = append(cs, c)
			comps = append(comps, c)
		}
		ops := []app.SettingOption{app.SetComponents(comps...)}
		mode := rapid.IntRange(0, 1).Draw(t, "ownregistry")
		if mode == 1 {
			// the run brings its own registry (first option, then its components)
			ops = append([]app.SettingOption{app.SetRegistry(support.NewRegistry())}, ops...)
		}
		atomic.StoreInt32(&gCloser.calls, 0)
		atomic.StoreInt32(&gCloser.done, 0)
		out := kit.RunApp(ops...)
		desc := fmt.Sprintf("global-settings closer, n=%d own-registry-mode=%d", n, mode)
		if !out.OK() {
			t.Fatalf("C14: start failed: %v (%s)", out, desc)
		}
		out.App.Close()
		if got := atomic.LoadInt32(&gCloser.done); got != 1 {
			t.Fatalf("C14: the closer registered through app.Settings was closed %d times by App.Close (exactly once expected)\n%s", got, desc)
		}
		for i, c := range cs {
			if got := atomic.LoadInt32(&c.done); got != 1 {
				t.Fatalf("C14: closer %d was closed %d times\n%s", i, got, desc)
			}
		}
		kit.Rec.Case(desc, mode != 0, "closer-through-global-settings")
	})
}
