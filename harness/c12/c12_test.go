package c12

import (
	"errors"
	"fmt"
	"github.com/go-kid/ioc"
	"github.com/go-kid/ioc/container/support"
	"math"
	"os"
	"strings"
	"testing"

	"github.com/go-kid/ioc/app"
	"github.com/go-kid/ioc/component_definition"
	"github.com/go-kid/ioc/configure"
	"github.com/go-kid/ioc/configure/binder"
	"github.com/go-kid/ioc/util/framework_helper"
	"pgregory.net/rapid"
	"verif/harness/kit"
)

func TestMain(m *testing.M) { kit.Main(m) }

// ---- participants: three classes -----------------------------------------

type part interface{ ident() *pinfo }

type pinfo struct {
	id    int
	class int // 0 priority-ordered, 1 ordered, 2 unordered
	ord   int
	log   *[]int
	name  string
	fail  *int // remaining failures of a flaky loader
}

var errFlaky = errors.New("c12: source temporarily unreadable")

func (p *pinfo) load() ([]byte, error) {
	p.hit()
	if p.fail != nil && *p.fail > 0 {
		*p.fail--
		return nil, errFlaky
	}
	return nil, nil
}

func (p *pinfo) ident() *pinfo { return p }
func (p *pinfo) hit() {
	if p.log != nil {
		*p.log = append(*p.log, p.id)
	}
}

type PO struct{ pinfo }

func (p *PO) Priority()  {}
func (p *PO) Order() int { return p.ord }

type OO struct{ pinfo }

func (p *OO) Order() int { return p.ord }

type NO struct{ pinfo }

// MO has the Priority marker method but no Order: it is not an ordered participant of any kind.
type MO struct{ pinfo }

func (p *MO) Priority() {}

var ordGen = rapid.OneOf(
	rapid.SampledFrom([]int{math.MinInt, -1, 0, 1, math.MaxInt, 2, 2, 3}),
	rapid.IntRange(-5, 5),
	rapid.Int(),
)

type spec struct {
	Class  int
	Ord    int
	Marker bool // unordered (no Order method) but carrying the Priority marker: still an unordered participant
}

func genSpecs(t *rapid.T, max int) []spec {
	n := rapid.IntRange(0, max).Draw(t, "n")
	s := make([]spec, n)
	for i := range s {
		s[i].Class = rapid.IntRange(0, 2).Draw(t, "class")
		if s[i].Class != 2 {
			s[i].Ord = ordGen.Draw(t, "ord")
		} else {
			s[i].Marker = rapid.IntRange(0, 3).Draw(t, "markeronly") == 0
		}
	}
	return s
}

func describe(kind string, s []spec) (string, bool, []string) {
	var sb strings.Builder
	sb.WriteString(kind + ":")
	cls := map[int]int{}
	ties := false
	seen := map[[2]int]bool{}
	for _, x := range s {
		cls[x.Class]++
		if x.Class != 2 {
			k := [2]int{x.Class, x.Ord}
			if seen[k] {
				ties = true
			}
			seen[k] = true
			fmt.Fprintf(&sb, " %s(%d)", []string{"P", "O"}[x.Class], x.Ord)
		} else if x.Marker {
			sb.WriteString(" M")
		} else {
			sb.WriteString(" N")
		}
	}
	var labels []string
	for _, x := range s {
		if x.Marker {
			labels = append(labels, kind+"/priority-marker-without-order")
			break
		}
	}
	if ties {
		labels = append(labels, kind+"/tie")
	}
	if len(cls) == 3 {
		labels = append(labels, kind+"/all-three-classes")
	}
	if len(s) > 12 {
		labels = append(labels, kind+"/n>12")
	}
	// non-trivial: at least two classes present and at least two members in one sorted class
	nt := len(cls) >= 2 && (cls[0] >= 2 || cls[1] >= 2)
	return sb.String(), nt, labels
}

// checkSeq is the contract: seq is a permutation of 0..n-1 (by identity),
// classes appear as 0* 1* 2*, Orders never decrease inside classes 0 and 1.
func checkSeq(specs []spec, seq []int) error {
	if len(seq) != len(specs) {
		return fmt.Errorf("got %d participants, want %d: %v", len(seq), len(specs), seq)
	}
	seen := make([]bool, len(specs))
	for _, id := range seq {
		if id < 0 || id >= len(specs) {
			return fmt.Errorf("foreign participant %d", id)
		}
		if seen[id] {
			return fmt.Errorf("participant %d appears twice: %v", id, seq)
		}
		seen[id] = true
	}
	for i := 1; i < len(seq); i++ {
		a, b := specs[seq[i-1]], specs[seq[i]]
		if a.Class > b.Class {
			return fmt.Errorf("class order broken at %d: %v then %v (seq %v)", i, a, b, seq)
		}
		if a.Class == b.Class && a.Class != 2 && a.Ord > b.Ord {
			return fmt.Errorf("Order decreases at %d: %v then %v (seq %v)", i, a, b, seq)
		}
	}
	return nil
}

const rule = "participants drawn over three classes with Orders from {MinInt,-1,0,1,MaxInt,small,any}; non-trivial = >=2 classes present and >=2 members in a sorted class; distinct by (site, class/Order list); since rounds 7/8 also a loader that fails once (the retry is a complete sequence), loaders of map / slice kind with a nil value, and (own process) participants announced through ioc.Register"

// ---- direct ----------------------------------------------------------------

func TestDirect(t *testing.T) {
	kit.Rec.Rule(rule)
	rapid.Check(t, func(t *rapid.T) {
		specs := genSpecs(t, 40)
		in := make([]part, len(specs))
		for i, s := range specs {
			pi := pinfo{id: i, class: s.Class, ord: s.Ord}
			switch s.Class {
			case 0:
				in[i] = &PO{pi}
			case 1:
				in[i] = &OO{pi}
			default:
				if s.Marker {
					in[i] = &MO{pi}
				} else {
					in[i] = &NO{pi}
				}
			}
		}
		orig := append([]part(nil), in...)
		out := framework_helper.SortOrderedComponents(in)
		for i := range in {
			if in[i] != orig[i] {
				t.Fatalf("SortOrderedComponents changed its INPUT slice at position %d (the callers keep using it, e.g. a loader list shared by two containers)", i)
			}
		}
		seq := make([]int, len(out))
		for i, p := range out {
			seq[i] = p.ident().id
			if orig[seq[i]] != p {
				t.Fatalf("output element %d is not the input object", i)
			}
		}
		if err := checkSeq(specs, seq); err != nil {
			t.Fatalf("SortOrderedComponents: %v", err)
		}
		d, nt, labels := describe("direct", specs)
		kit.Rec.Case(d, nt, labels...)
	})
}

// ---- end to end: runners -----------------------------------------------------

type RunPO struct{ PO }

func (r *RunPO) Run() error     { r.hit(); return nil }
func (r *RunPO) Naming() string { return r.name }

type RunOO struct{ OO }

func (r *RunOO) Run() error     { r.hit(); return nil }
func (r *RunOO) Naming() string { return r.name }

type RunNO struct{ NO }

func (r *RunNO) Run() error     { r.hit(); return nil }
func (r *RunNO) Naming() string { return r.name }

// stateless runners (zero-size types: all such objects share one address)
var zrHits [3]int

type ZR0 struct{}
type ZR1 struct{}
type ZR2 struct{}

func (*ZR0) Run() error { zrHits[0]++; return nil }
func (*ZR1) Run() error { zrHits[1]++; return nil }
func (*ZR2) Run() error { zrHits[2]++; return nil }

type RunMO struct{ MO }

func (r *RunMO) Run() error     { r.hit(); return nil }
func (r *RunMO) Naming() string { return r.name }

func TestRunners(t *testing.T) {
	kit.Rec.Rule(rule)
	rapid.Check(t, func(t *rapid.T) {
		specs := genSpecs(t, 16)
		var log []int
		comps := make([]any, len(specs))
		for i, s := range specs {
			pi := pinfo{id: i, class: s.Class, ord: s.Ord, log: &log, name: fmt.Sprintf("r%02d", i)}
			switch s.Class {
			case 0:
				comps[i] = &RunPO{PO{pi}}
			case 1:
				comps[i] = &RunOO{OO{pi}}
			default:
				if s.Marker {
					comps[i] = &RunMO{MO{pi}}
				} else {
					comps[i] = &RunNO{NO{pi}}
				}
			}
		}
		nz := rapid.IntRange(0, 3).Draw(t, "stateless")
		zrHits = [3]int{}
		comps = append(comps, []any{&ZR0{}, &ZR1{}, &ZR2{}}[:nz]...)
		comps = rapid.Permutation(comps).Draw(t, "regorder")
		out := kit.RunApp(app.SetComponents(comps...))
		if !out.OK() {
			t.Fatalf("Run failed: %v", out)
		}
		if err := checkSeq(specs, log); err != nil {
			t.Fatalf("runner invocation sequence: %v", err)
		}
		for i := 0; i < 3; i++ {
			if want := map[bool]int{true: 1, false: 0}[i < nz]; zrHits[i] != want {
				t.Fatalf("stateless runner %d (of %d registered) was invoked %d times, want %d: every participant appears exactly once", i, nz, zrHits[i], want)
			}
		}
		d, nt, labels := describe("runners", specs)
		kit.Rec.Case(d, nt, labels...)
	})
}

// ---- end to end: loaders -----------------------------------------------------

type LoadPO struct{ PO }

func (r *LoadPO) LoadConfig() ([]byte, error) { return r.load() }

type LoadOO struct{ OO }

func (r *LoadOO) LoadConfig() ([]byte, error) { return r.load() }

type LoadNO struct{ NO }

func (r *LoadNO) LoadConfig() ([]byte, error) { return r.load() }

type LoadMO struct{ MO }

func (r *LoadMO) LoadConfig() ([]byte, error) { return r.load() }

// NilMapLoader / NilSliceLoader: loaders whose Go kind is map / slice and whose VALUE is nil (an empty filter, say):
// perfectly good participants.
type NilMapLoader map[string]string
type NilSliceLoader []string

var nilLoaderLog *[]int
var nilLoaderIDs [2]int

func (NilMapLoader) LoadConfig() ([]byte, error) {
	*nilLoaderLog = append(*nilLoaderLog, nilLoaderIDs[0])
	return nil, nil
}
func (NilSliceLoader) LoadConfig() ([]byte, error) {
	*nilLoaderLog = append(*nilLoaderLog, nilLoaderIDs[1])
	return []byte("c12:\n  nil-slice-loader: seen\n"), nil
}

func TestLoaders(t *testing.T) {
	kit.Rec.Rule(rule)
	rapid.Check(t, func(t *rapid.T) {
		specs := genSpecs(t, 16)
		var log []int
		nilLoaderLog = &log
		nilKinds := rapid.IntRange(0, 3).Draw(t, "nilkindloaders") // bit 0: a nil map loader, bit 1: a nil slice loader
		for k := 0; k < 2; k++ {
			if nilKinds&(1<<k) != 0 {
				nilLoaderIDs[k] = len(specs)
				specs = append(specs, spec{Class: 2})
			}
		}
		ls := make([]configure.Loader, len(specs))
		for i, s := range specs {
			pi := pinfo{id: i, class: s.Class, ord: s.Ord, log: &log}
			if nilKinds&1 != 0 && i == nilLoaderIDs[0] {
				ls[i] = NilMapLoader(nil)
				continue
			}
			if nilKinds&2 != 0 && i == nilLoaderIDs[1] {
				ls[i] = NilSliceLoader(nil)
				continue
			}
			switch s.Class {
			case 0:
				ls[i] = &LoadPO{PO{pi}}
			case 1:
				ls[i] = &LoadOO{OO{pi}}
			default:
				if s.Marker {
					ls[i] = &LoadMO{MO{pi}}
				} else {
					ls[i] = &LoadNO{NO{pi}}
				}
			}
		}
		// a loader configured by an earlier option and then replaced - SetConfigLoader sets the list, also to the empty
		// one - is no participant any more
		stale := &LoadPO{PO{pinfo{id: len(specs) + 100, class: 0, ord: math.MinInt, log: &log}}}
		out := kit.RunApp(app.SetConfigLoader(stale), app.SetConfigLoader(ls...))
		if !out.OK() {
			t.Fatalf("Run failed: %v", out)
		}
		if err := checkSeq(specs, log); err != nil {
			t.Fatalf("loader invocation sequence (a replaced loader has id %d): %v", len(specs)+100, err)
		}
		// the same loaders (the same slice) configure a second container of this process: same sequence again
		log = nil
		out = kit.RunApp(app.SetConfigLoader(ls...))
		if !out.OK() {
			t.Fatalf("second container: Run failed: %v", out)
		}
		if err := checkSeq(specs, log); err != nil {
			t.Fatalf("loader invocation sequence in a second container built from the same loader slice: %v", err)
		}
		d, nt, labels := describe("loaders", specs)
		kit.Rec.Case(d, nt, labels...)
	})
}

// ---- end to end: component post-processors -----------------------------------

// Probe and Probe2 sit on a cycle, so that an early reference of the probe is requested.
type Probe struct {
	Peer *Probe2 `wire:""`
}

func (p *Probe) Naming() string { return "zz-probe" }

type Probe2 struct {
	Back *Probe `wire:""`
}

func (p *Probe2) Naming() string { return "zz-probe2" }

// lazy variants of the three post-processor classes: LazyInit must not change where they sort
type PPPOL struct{ PPPO }

func (*PPPOL) LazyInit() {}

type PPOOL struct{ PPOO }

func (*PPOOL) LazyInit() {}

type PPNOL struct{ PPNO }

func (*PPNOL) LazyInit() {}

type ppBase struct{ before, after *[]int }

// instRec adds the instantiation-aware callbacks (their invocation order on the probe is recorded too).
type instRec struct {
	pid  *int
	inst *[]int
	earl *[]int // early-reference callbacks on zz-probe
	ear2 *[]int // ... on zz-probe2 (which of the two is handed out early depends on the creation order, which nothing promises)
}

func (r *instRec) PostProcessBeforeInstantiation(m *component_definition.Meta, n string) (any, error) {
	return nil, nil
}
func (r *instRec) PostProcessAfterInstantiation(c any, n string) (bool, error) {
	if n == "zz-probe" {
		*r.inst = append(*r.inst, *r.pid)
	}
	return false, nil
}
func (r *instRec) GetEarlyBeanReference(c any, n string) (any, error) {
	if n == "zz-probe" && r.earl != nil {
		*r.earl = append(*r.earl, *r.pid)
	}
	if n == "zz-probe2" && r.ear2 != nil {
		*r.ear2 = append(*r.ear2, *r.pid)
	}
	return c, nil
}
func (r *instRec) PostProcessProperties(p []*component_definition.Property, c any, n string) ([]*component_definition.Property, error) {
	return nil, nil
}

type PPPO struct {
	PO
	after *[]int
	instRec
}

func (r *PPPO) Naming() string { return r.name }
func (r *PPPO) PostProcessBeforeInitialization(c any, n string) (any, error) {
	if n == "zz-probe" {
		r.hit()
	}
	return c, nil
}
func (r *PPPO) PostProcessAfterInitialization(c any, n string) (any, error) {
	if n == "zz-probe" {
		*r.after = append(*r.after, r.id)
	}
	return c, nil
}

type PPOO struct {
	OO
	after *[]int
	instRec
}

func (r *PPOO) Naming() string { return r.name }
func (r *PPOO) PostProcessBeforeInitialization(c any, n string) (any, error) {
	if n == "zz-probe" {
		r.hit()
	}
	return c, nil
}
func (r *PPOO) PostProcessAfterInitialization(c any, n string) (any, error) {
	if n == "zz-probe" {
		*r.after = append(*r.after, r.id)
	}
	return c, nil
}

type PPNO struct {
	NO
	after *[]int
	instRec
}

func (r *PPNO) Naming() string { return r.name }
func (r *PPNO) PostProcessBeforeInitialization(c any, n string) (any, error) {
	if n == "zz-probe" {
		r.hit()
	}
	return c, nil
}
func (r *PPNO) PostProcessAfterInitialization(c any, n string) (any, error) {
	if n == "zz-probe" {
		*r.after = append(*r.after, r.id)
	}
	return c, nil
}

// DecoPP is sorted in front of everything and replaces ONE of the later participants, after that one's own
// initialization, by an opaque proxy (which is no post-processor): the replaced participant keeps its place in the
// sequence all the same.
type DecoPP struct {
	target string
	did    int
}

type opaque struct{ inner any }

func (*DecoPP) Priority()                                                      {}
func (*DecoPP) Order() int                                                     { return math.MinInt }
func (*DecoPP) Naming() string                                                 { return "aa-deco-pp" }
func (d *DecoPP) PostProcessBeforeInitialization(c any, n string) (any, error) { return c, nil }
func (d *DecoPP) PostProcessAfterInitialization(c any, n string) (any, error) {
	if n == d.target {
		d.did++
		return &opaque{c}, nil
	}
	return c, nil
}

// a post-processor that has another post-processor wired into it: the wired one finishes its creation first, which
// must not move it in front of its holder in the sequence
type depTarget interface{ isDepTarget() }
type PPOOT struct{ PPOO }

func (*PPOOT) isDepTarget() {}

type PPOOW struct {
	PPOO
	Dep depTarget `wire:",required=false"`
}

func TestPostProcessors(t *testing.T) {
	kit.Rec.Rule(rule)
	rapid.Check(t, func(t *rapid.T) {
		specs := genSpecs(t, 10)
		// now and then two ordered processors are given Orders behind the built-in wiring processors, and the one
		// with the smaller Order wires the other
		wi, wj := -1, -1
		if rapid.IntRange(0, 2).Draw(t, "wiredpair") == 0 {
			for i := range specs {
				if specs[i].Class != 1 {
					continue
				}
				if wi < 0 {
					wi = i
				} else if wj < 0 {
					wj = i
				}
			}
			if wj >= 0 {
				if rapid.Bool().Draw(t, "swap") {
					wi, wj = wj, wi
				}
				specs[wi].Ord = 5 + rapid.IntRange(0, 5).Draw(t, "holderord")
				specs[wj].Ord = 20 + rapid.IntRange(0, 5).Draw(t, "targetord")
			} else {
				wi = -1
			}
		}
		var before, after, inst, earl, ear2 []int
		comps := make([]any, len(specs))
		lazies := 0
		for i, s := range specs {
			pi := pinfo{id: i, class: s.Class, ord: s.Ord, log: &before, name: fmt.Sprintf("pp%02d", i)}
			id := i
			ir := instRec{pid: &id, inst: &inst, earl: &earl, ear2: &ear2}
			lazy := rapid.IntRange(0, 3).Draw(t, "lazy") == 0
			if lazy {
				lazies++
			}
			switch {
			case i == wi && wj >= 0:
				comps[i] = &PPOOW{PPOO: PPOO{OO{pi}, &after, ir}}
			case i == wj && wi >= 0:
				comps[i] = &PPOOT{PPOO{OO{pi}, &after, ir}}
			case s.Class == 0 && lazy:
				comps[i] = &PPPOL{PPPO{PO{pi}, &after, ir}}
			case s.Class == 0:
				comps[i] = &PPPO{PO{pi}, &after, ir}
			case s.Class == 1 && lazy:
				comps[i] = &PPOOL{PPOO{OO{pi}, &after, ir}}
			case s.Class == 1:
				comps[i] = &PPOO{OO{pi}, &after, ir}
			case lazy:
				comps[i] = &PPNOL{PPNO{NO{pi}, &after, ir}}
			default:
				comps[i] = &PPNO{NO{pi}, &after, ir}
			}
		}
		comps0 := append([]any(nil), comps...)
		decorated := -1
		if len(specs) > 0 && rapid.IntRange(0, 3).Draw(t, "decorated") == 0 {
			decorated = rapid.IntRange(0, len(specs)-1).Draw(t, "decoratedwhich")
			if decorated != wi && decorated != wj {
				comps = append(comps, &DecoPP{target: fmt.Sprintf("pp%02d", decorated)})
			} else {
				decorated = -1
			}
		}
		comps = append(comps, &Probe{}, &Probe2{})
		comps = rapid.Permutation(comps).Draw(t, "regorder")
		out := kit.RunApp(app.SetComponents(comps...))
		if !out.OK() {
			t.Fatalf("Run failed: %v", out)
		}
		if err := checkSeq(specs, before); err != nil {
			t.Fatalf("before-initialization sequence on the probe: %v", err)
		}
		if err := checkSeq(specs, after); err != nil {
			t.Fatalf("after-initialization sequence on the probe: %v", err)
		}
		if err := checkSeq(specs, inst); err != nil {
			t.Fatalf("after-instantiation sequence on the probe: %v", err)
		}
		// whichever of the two is created first is handed to the other as an early reference: that callback chain too
		if len(earl) == 0 && len(ear2) == 0 && len(specs) > 0 {
			t.Fatalf("neither probe of the two-cycle was handed out as an early reference, yet the start succeeded")
		}
		for _, e := range [][]int{earl, ear2} {
			if len(e) == 0 {
				continue
			}
			if err := checkSeq(specs, e); err != nil {
				t.Fatalf("early-reference callback sequence on a probe (%d lazy post-processors): %v", lazies, err)
			}
		}
		d, nt, labels := describe("postprocessors", specs)
		if decorated >= 0 {
			labels = append(labels, "postprocessors/participant-decorated-by-an-earlier-one")
			d += fmt.Sprintf(" decorated %d", decorated)
		}
		if wi >= 0 && wj >= 0 {
			if w := comps0[wi].(*PPOOW); w.Dep == nil {
				t.Fatalf("the processor with Order %d did not get the processor with Order %d wired in", specs[wi].Ord, specs[wj].Ord)
			}
			labels = append(labels, "postprocessors/processor-wired-into-processor")
			d += fmt.Sprintf(" wired %d->%d", wi, wj)
		}
		kit.Rec.Case(d, nt, labels...)
	})
}

// ---- loaders, multi-step: initialise, add loaders, initialise again -------------------------------

func TestLoadersReinit(t *testing.T) {
	kit.Rec.Rule(rule)
	rapid.Check(t, func(t *rapid.T) {
		first := genSpecs(t, 6)
		second := genSpecs(t, 6)
		specs := append(append([]spec{}, first...), second...)
		var log []int
		mk := func(i int, s spec) configure.Loader {
			pi := pinfo{id: i, class: s.Class, ord: s.Ord, log: &log}
			switch s.Class {
			case 0:
				return &LoadPO{PO{pi}}
			case 1:
				return &LoadOO{OO{pi}}
			}
			return &LoadNO{NO{pi}}
		}
		c := configure.NewConfigure()
		c.SetBinder(binder.NewViperBinder("yaml"))
		var ls []configure.Loader
		for i, s := range first {
			ls = append(ls, mk(i, s))
		}
		useSet := rapid.Bool().Draw(t, "useset")
		if useSet {
			c.SetLoaders(ls...)
		} else {
			c.AddLoaders(ls...)
		}
		// now and then one source of the first batch is unreadable once: Initialize reports it, and the caller's retry
		// is a complete initialisation again - every loader, in sequence
		flaky := -1
		if len(first) > 0 && rapid.IntRange(0, 2).Draw(t, "flaky") == 0 {
			flaky = rapid.IntRange(0, len(first)-1).Draw(t, "flakyidx")
			n := 1
			ls[flaky].(part).ident().fail = &n
		}
		err := c.Initialize()
		if flaky >= 0 {
			// (whether and how the failure is reported is not this property's business)
			if err == nil || rapid.Bool().Draw(t, "retrynow") {
				log = nil
				if err := c.Initialize(); err != nil {
					t.Fatalf("retry of Initialize: %v", err)
				}
				if err := checkSeq(first, log); err != nil {
					t.Fatalf("retry after loader %d had failed once: loader sequence: %v", flaky, err)
				}
			}
		} else {
			if err != nil {
				t.Fatalf("Initialize: %v", err)
			}
			if err := checkSeq(first, log); err != nil {
				t.Fatalf("first initialisation: loader sequence: %v", err)
			}
		}
		log = nil
		var ls2 []configure.Loader
		for i, s := range second {
			ls2 = append(ls2, mk(len(first)+i, s))
		}
		c.AddLoaders(ls2...)
		if err := c.Initialize(); err != nil {
			t.Fatalf("Initialize: %v", err)
		}
		if err := checkSeq(specs, log); err != nil {
			t.Fatalf("second initialisation after AddLoaders (first batch %v, added %v): loader sequence: %v", first, second, err)
		}
		d, nt, labels := describe("loaders-reinit", specs)
		if flaky >= 0 {
			d += fmt.Sprintf(" flaky=%d", flaky)
			labels = append(labels, "retry-after-failed-initialize")
		}
		kit.Rec.Case(d, nt, labels...)
	})
}

// ---- participants announced process-wide (ioc.Register), the run brings more - own process ----------------------

func TestStaticRegisteredParticipants(t *testing.T) {
	if os.Getenv("VERIF_GLOBAL_SETTINGS") != "1" {
		t.Skip("changes process-wide state: runs in a process of its own")
	}
	kit.Rec.Rule(rule)
	var log []int
	specs := []spec{{Class: 0, Ord: 5}, {Class: 1, Ord: -1}, {Class: 2}, {Class: 0, Ord: -2}, {Class: 1, Ord: 8}, {Class: 2}}
	mk := func(i int) any {
		pi := pinfo{id: i, class: specs[i].Class, ord: specs[i].Ord, log: &log, name: fmt.Sprintf("greg-runner-%d", i)}
		switch specs[i].Class {
		case 0:
			return &RunPO{PO{pi}}
		case 1:
			return &RunOO{OO{pi}}
		}
		return &RunNO{NO{pi}}
	}
	ioc.Register(mk(0), mk(1), mk(2)) // the first three are announced process-wide
	for round, ownRegistry := range []bool{false, true, true, false} {
		log = nil
		ops := []app.SettingOption{app.SetComponents(mk(3), mk(4), mk(5))}
		if ownRegistry {
			ops = append([]app.SettingOption{app.SetRegistry(support.NewRegistry())}, ops...)
		}
		var err error
		if p := kit.Protect(func() { _, err = ioc.Run(ops...) }); p != nil {
			t.Fatalf("C12: ioc.Run panicked: %v", p)
		}
		desc := fmt.Sprintf("three runners announced through ioc.Register, three passed to ioc.Run (run %d, registry of its own: %v)", round, ownRegistry)
		if err != nil {
			t.Fatalf("C12: %s: start-up failed: %v", desc, err)
		}
		if err := checkSeq(specs, log); err != nil {
			kit.DumpReplay("c12-registered-participants", map[string]any{"scenario": desc, "sequence": log, "error": err.Error()})
			t.Fatalf("C12: %s: runner sequence %v: %v", desc, log, err)
		}
		kit.Rec.Case(desc, ownRegistry, "registered-participants")
	}
}
