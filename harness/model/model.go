// Package model is the reference model of component resolution, written from
// the property statements and the README (not from the container's code): who
// is registered under which name, which components are admissible for an
// injection point, and which start-up outcome is admissible.
package model

import (
	"fmt"
	"path"
	"reflect"
	"sort"
	"strings"
)

// Comp is one registered component as the model sees it.
type Comp struct {
	Name    string // name it is registered under
	Obj     any
	Ptr     uintptr
	Typ     reflect.Type
	Named   bool // declares a non-empty custom name
	HasQual bool
	Qual    string
	Primary bool
	Lazy    bool
	ID      int // harness id (position in the scenario), -1 for framework components
}

func (c *Comp) String() string { return c.Name }

// NameOf is the documented naming rule: custom name if non-empty, else
// {package}/{type name} (the type's own string for unnamed types).
func NameOf(obj any) (name string, named bool) {
	if n, ok := obj.(interface{ Naming() string }); ok {
		if a := n.Naming(); a != "" {
			return a, true
		}
	}
	t := reflect.TypeOf(obj)
	if t.Kind() == reflect.Pointer {
		t = t.Elem()
	}
	if t.Name() == "" {
		return t.String(), false
	}
	return path.Join(t.PkgPath(), t.Name()), false
}

func NewComp(obj any, id int) *Comp {
	c := &Comp{Obj: obj, Typ: reflect.TypeOf(obj), ID: id}
	c.Name, c.Named = NameOf(obj)
	if v := reflect.ValueOf(obj); v.Kind() == reflect.Pointer {
		c.Ptr = v.Pointer()
	}
	if q, ok := obj.(interface{ Qualifier() string }); ok {
		c.HasQual, c.Qual = true, q.Qualifier()
	}
	_, c.Primary = obj.(interface{ Primary() })
	_, c.Lazy = obj.(interface{ LazyInit() })
	return c
}

// Population builds the model population from the registered objects
// (keyed by registration name, as Factory.GetRegisteredComponents returns them).
// ids maps object pointer -> harness id.
func Population(registered map[string]any, ids map[uintptr]int) []*Comp {
	names := make([]string, 0, len(registered))
	for n := range registered {
		names = append(names, n)
	}
	sort.Strings(names)
	var pop []*Comp
	for _, n := range names {
		obj := registered[n]
		id := -1
		if v := reflect.ValueOf(obj); v.Kind() == reflect.Pointer {
			if x, ok := ids[v.Pointer()]; ok {
				id = x
			}
		}
		c := NewComp(obj, id)
		if c.Name != n {
			// the model's naming rule disagrees with the registry: keep the
			// registry key but remember (checked by C07).
			c.Name = n
		}
		pop = append(pop, c)
	}
	return pop
}

// Point is one component injection point (wire / func tag) of a holder.
type Point struct {
	Holder   *Comp
	Path     []int // reflect field index path from the holder struct
	Field    reflect.StructField
	Tag      string // "wire" or "func"
	Val      string // tag value (component name, or method name for func)
	Args     map[string][]string
	Required bool
	Multi    bool
	Settable bool

	All      []*Comp // admissible targets incl. the holder itself
	Cands    []*Comp // admissible targets without the holder
	Top      []*Comp // single-valued: equally top-ranked candidates
	SelfOnly bool    // candidates exist but only the holder itself
}

func (p *Point) String() string {
	return fmt.Sprintf("%s.%s[%s:%q]", p.Holder.Name, p.Field.Name, p.Tag, p.Field.Tag.Get(p.Tag))
}

// Satisfiable: some admissible non-self target exists.
func (p *Point) Satisfiable() bool { return len(p.Cands) > 0 }

// ResolveTagValue lets a check resolve placeholders in the value part of a tag before the model
// interprets it (identity by default).
// The default assumes an empty configuration: ${key:default} gives the default, ${key} nothing.
// AdjustPoint lets a check mirror what a user post-processor of its scenario does to a point's arguments (through
// the public Property.SetArg / AddArg) before the matching processors run.
var AdjustPoint func(p *Point)

var ResolveTagValue = func(s string) string {
	for i := 0; i < 100; i++ {
		end := strings.Index(s, "}")
		if end < 0 {
			return s
		}
		start := strings.LastIndex(s[:end], "${")
		if start < 0 {
			return s
		}
		def := ""
		if _, d, ok := strings.Cut(s[start+2:end], ":"); ok {
			def = d
		}
		s = s[:start] + def + s[end+1:]
	}
	return s
}

// ParseTag splits a tag in the well-formed grammar the generators emit:
// value[,name=item item...]* . No brackets, no spaces outside items.
func ParseTag(s string) (val string, args map[string][]string) {
	args = map[string][]string{}
	parts := strings.Split(s, ",")
	val = parts[0]
	for _, p := range parts[1:] {
		if p == "" {
			continue
		}
		k, v, has := strings.Cut(p, "=")
		k = strings.ToLower(k[:1]) + k[1:]
		if !has {
			args[k] = []string{""}
			continue
		}
		args[k] = strings.Split(v, " ")
	}
	return
}

func contains(xs []string, s string) bool {
	for _, x := range xs {
		if x == s {
			return true
		}
	}
	return false
}

// IsOptional: only an explicit required=false makes a point optional.
func IsOptional(args map[string][]string) bool {
	return contains(args["required"], "false")
}

// Points enumerates the component injection points of holder over pop.
func Points(holder *Comp, pop []*Comp) []*Point {
	var out []*Point
	t := holder.Typ
	if t.Kind() != reflect.Pointer || t.Elem().Kind() != reflect.Struct {
		return nil
	}
	var walk func(t reflect.Type, prefix []int, settable bool)
	walk = func(t reflect.Type, prefix []int, settable bool) {
		for i := 0; i < t.NumField(); i++ {
			f := t.Field(i)
			idx := append(append([]int(nil), prefix...), i)
			exported := f.PkgPath == ""
			if f.Anonymous && f.Tag == "" && f.Type.Kind() == reflect.Struct {
				// exported fields promoted through an embedded struct stay settable even when the
				// embedded type's name is unexported (reflect's read-only flag of embedded fields is not sticky)
				walk(f.Type, idx, settable)
				continue
			}
			if !(settable && exported) {
				continue
			}
			for _, tag := range []string{"wire", "func"} {
				tv, ok := f.Tag.Lookup(tag)
				if !ok {
					continue
				}
				p := &Point{Holder: holder, Path: idx, Field: f, Tag: tag, Settable: true}
				p.Val, p.Args = ParseTag(tv)
				if AdjustPoint != nil {
					AdjustPoint(p)
				}
				p.Val = ResolveTagValue(p.Val)
				p.Required = !IsOptional(p.Args)
				p.Multi = f.Type.Kind() == reflect.Slice
				resolve(p, pop)
				out = append(out, p)
				break
			}
		}
	}
	walk(t.Elem(), nil, true)
	return out
}

func typeMatch(ft reflect.Type, c *Comp) bool {
	et := ft
	if ft.Kind() == reflect.Slice {
		et = ft.Elem()
	}
	switch et.Kind() {
	case reflect.Pointer:
		return c.Typ == et
	case reflect.Interface:
		return c.Typ.Implements(et)
	}
	return false
}

func resolve(p *Point, pop []*Comp) {
	ft := p.Field.Type
	var all []*Comp
	switch {
	case p.Tag == "wire" && p.Val != "":
		// by name: single-valued pointer / interface fields only
		if ft.Kind() == reflect.Pointer || ft.Kind() == reflect.Interface {
			for _, c := range pop {
				if c.Name == p.Val && c.Typ.AssignableTo(ft) {
					all = append(all, c)
				}
			}
		}
	case p.Tag == "wire":
		for _, c := range pop {
			if typeMatch(ft, c) {
				all = append(all, c)
			}
		}
	case p.Tag == "func":
		rets, hasRet := p.Args["returns"]
		for _, c := range pop {
			if !typeMatch(ft, c) {
				continue
			}
			m := reflect.ValueOf(c.Obj).MethodByName(p.Val)
			if !m.IsValid() {
				continue
			}
			if !hasRet {
				if m.Type().NumOut() == 0 {
					all = append(all, c)
				}
				continue
			}
			ok := false
			for _, r := range rets {
				if r == "*" {
					ok = true
					break
				}
				if m.Type().NumIn() != 0 {
					continue
				}
				if m.Type().NumOut() == 0 {
					if r == "" {
						ok = true
					}
					continue
				}
				res := m.Call(nil)[0].Interface()
				if s, isStr := res.(string); isStr && s == r {
					ok = true
				}
			}
			if ok {
				all = append(all, c)
			}
		}
	}
	if q, ok := p.Args["qualifier"]; ok {
		var f []*Comp
		for _, c := range all {
			if c.HasQual && contains(q, c.Qual) {
				f = append(f, c)
			}
		}
		all = f
	}
	p.All = all
	for _, c := range all {
		if c != p.Holder {
			p.Cands = append(p.Cands, c)
		}
	}
	p.SelfOnly = len(all) > 0 && len(p.Cands) == 0
	if !p.Multi {
		p.Top = topRank(p.Cands)
	}
}

// topRank: a unique Primary wins, otherwise a unique component without a
// custom name; equally ranked candidates form the tied set.
func topRank(c []*Comp) []*Comp {
	if len(c) <= 1 {
		return c
	}
	var prim, unnamed []*Comp
	for _, x := range c {
		if x.Primary {
			prim = append(prim, x)
		}
		if !x.Named {
			unnamed = append(unnamed, x)
		}
	}
	if len(prim) > 0 {
		return prim
	}
	if len(unnamed) > 0 {
		return unnamed
	}
	return c
}

// Graph is the resolved model of a whole population.
type Graph struct {
	Pop    []*Comp
	ByPtr  map[uintptr]*Comp // NOTE: pointers to zero-size structs share one address; use Find for lookups
	byTP   map[typePtr]*Comp
	ByName map[string]*Comp
	Points map[*Comp][]*Point
}

type typePtr struct {
	t reflect.Type
	p uintptr
}

// Find returns the registered component that obj is (same dynamic type and address), or nil.
func (g *Graph) Find(obj any) *Comp {
	v := reflect.ValueOf(obj)
	if !v.IsValid() || v.Kind() != reflect.Pointer || v.IsNil() {
		return nil
	}
	return g.byTP[typePtr{v.Type(), v.Pointer()}]
}

func Build(pop []*Comp) *Graph {
	g := &Graph{Pop: pop, ByPtr: map[uintptr]*Comp{}, byTP: map[typePtr]*Comp{}, ByName: map[string]*Comp{}, Points: map[*Comp][]*Point{}}
	for _, c := range pop {
		g.ByPtr[c.Ptr] = c
		g.byTP[typePtr{c.Typ, c.Ptr}] = c
		g.ByName[c.Name] = c
	}
	for _, c := range pop {
		g.Points[c] = Points(c, pop)
	}
	return g
}

// Created computes which components start-up must create (eager ones and
// everything reachable from them through injected edges that are certain) and
// which it may create (reachable only through tied single-valued points).
func (g *Graph) Created() (must, may map[*Comp]bool) {
	must, may = map[*Comp]bool{}, map[*Comp]bool{}
	var visit func(c *Comp, certain bool)
	visit = func(c *Comp, certain bool) {
		if certain {
			if must[c] {
				return
			}
			must[c] = true
		} else {
			if must[c] || may[c] {
				return
			}
			may[c] = true
		}
		for _, p := range g.Points[c] {
			if p.Multi {
				for _, t := range p.Cands {
					visit(t, certain)
				}
			} else {
				for _, t := range p.Top {
					visit(t, certain && len(p.Top) == 1)
				}
			}
		}
	}
	for _, c := range g.Pop {
		if !c.Lazy {
			visit(c, true)
		}
	}
	for c := range must {
		delete(may, c)
	}
	return
}

// Verdict of the model for the component-wiring part of start-up.
type Verdict int

const (
	MustSucceed Verdict = iota
	MustFail
	Either
)

func (v Verdict) String() string { return [...]string{"must-succeed", "must-fail", "either"}[v] }

// Unsatisfied returns the required points (of components that must / may be
// created) that have no admissible non-self target.
func (g *Graph) Unsatisfied() (certain, possible []*Point) {
	must, may := g.Created()
	for _, c := range g.Pop {
		for _, p := range g.Points[c] {
			if p.Required && !p.Satisfiable() {
				if must[c] {
					certain = append(certain, p)
				} else if may[c] {
					possible = append(possible, p)
				}
			}
		}
	}
	return
}

func (g *Graph) WiringVerdict() Verdict {
	c, p := g.Unsatisfied()
	switch {
	case len(c) > 0:
		return MustFail
	case len(p) > 0:
		return Either
	}
	return MustSucceed
}

// Edges returns, for component c, the set of components it is certainly wired to.
func (g *Graph) Edges(c *Comp) []*Comp {
	seen := map[*Comp]bool{}
	var out []*Comp
	for _, p := range g.Points[c] {
		ts := p.Cands
		if !p.Multi {
			ts = p.Top
			if len(ts) != 1 {
				ts = nil
			}
		}
		for _, t := range ts {
			if !seen[t] {
				seen[t] = true
				out = append(out, t)
			}
		}
	}
	return out
}

// PossibleEdges includes tied targets.
func (g *Graph) PossibleEdges(c *Comp) []*Comp {
	seen := map[*Comp]bool{}
	var out []*Comp
	for _, p := range g.Points[c] {
		ts := p.Cands
		if !p.Multi {
			ts = p.Top
		}
		for _, t := range ts {
			if !seen[t] {
				seen[t] = true
				out = append(out, t)
			}
		}
	}
	return out
}

// Reach computes reachability over PossibleEdges.
func (g *Graph) Reach() map[*Comp]map[*Comp]bool {
	r := map[*Comp]map[*Comp]bool{}
	for _, c := range g.Pop {
		seen := map[*Comp]bool{}
		stack := []*Comp{c}
		for len(stack) > 0 {
			x := stack[len(stack)-1]
			stack = stack[:len(stack)-1]
			for _, t := range g.PossibleEdges(x) {
				if !seen[t] {
					seen[t] = true
					stack = append(stack, t)
				}
			}
		}
		r[c] = seen
	}
	return r
}

// FieldValue returns the field a point denotes on its holder object.
func (p *Point) FieldValue() reflect.Value {
	return reflect.ValueOf(p.Holder.Obj).Elem().FieldByIndex(p.Path)
}
