// Package graph is the scenario engine of the node family: it draws a
// scenario (which zoo nodes exist, their qualifier masks = arbitrary digraph,
// aliases, variants, registration and enumeration orders), instantiates it on
// fresh objects, runs the real container through the verif hook (order
// permuter + call tracer around the real registries) and exposes the model
// and the observed wiring.
package graph

import (
	"fmt"
	"hash/fnv"
	"reflect"
	"sort"
	"strings"

	"github.com/go-kid/ioc/app"
	"github.com/go-kid/ioc/component_definition"
	"github.com/go-kid/ioc/container"
	"github.com/go-kid/ioc/container/factory"
	"github.com/go-kid/ioc/container/support"
	"pgregory.net/rapid"
	altzoo "verif/harness/alt/zoo"
	"verif/harness/kit"
	"verif/harness/model"
	"verif/harness/zoo"
)

type NodeSpec struct {
	Idx      int
	Variant  byte // N R L P
	Mask     int  // bit h set: holder index h sees this node through its QS slice
	Alias    string
	FailAPS  int
	FailInit int
	Lookups  []int // scenario indices of nodes this node looks up by name inside Init
}

func (n NodeSpec) String() string {
	s := fmt.Sprintf("%c%d{m=%06b", n.Variant, n.Idx, n.Mask)
	if n.Alias != "" {
		s += ",a=" + n.Alias
	}
	if n.FailAPS != 0 {
		s += fmt.Sprintf(",failAPS=%d", n.FailAPS)
	}
	if n.FailInit != 0 {
		s += fmt.Sprintf(",failInit=%d", n.FailInit)
	}
	if len(n.Lookups) > 0 {
		s += fmt.Sprintf(",lookups=%v", n.Lookups)
	}
	return s + "}"
}

type Scenario struct {
	Nodes    []NodeSpec
	Selfs    []int // indices into zoo.SelfKinds
	Z        []int // scale-family indices
	ZPar     []int // per scale-family node: index j of the Z type whose qualified slice ZQ holds it (-1: none)
	RegPerm  []int // registration order: permutation of 0..len(all)-1
	OrdMode  int   // 0 fixed ranks, 1 reshuffle on every enumeration
	OrdSeed  uint64
	NoPermut bool // leave the registries' own (sync.Map) order in place
	NoHook   bool // run on the library's own factory.Default() and registry: no order control, no call trace
}

func (s *Scenario) String() string {
	var sb strings.Builder
	for i, n := range s.Nodes {
		if i > 0 {
			sb.WriteString(" ")
		}
		sb.WriteString(n.String())
	}
	if len(s.Selfs) > 0 {
		fmt.Fprintf(&sb, " selfs=%v", s.Selfs)
	}
	if len(s.Z) > 0 {
		h := fnv.New32a()
		for i, z := range s.Z {
			p := -1
			if i < len(s.ZPar) {
				p = s.ZPar[i]
			}
			fmt.Fprintf(h, "%d:%d,", z, p)
		}
		fmt.Fprintf(&sb, " z=%d#%08x", len(s.Z), h.Sum32())
	}
	return sb.String()
}

// Shape is the canonical description used for distinctness (orders excluded).
func (s *Scenario) Shape() string { return s.String() }

type GenOpts struct {
	MinNodes, MaxNodes int
	Variants           string // subset of "NRLP"
	Aliases            bool
	ShortAliases       bool // now and then a custom name that equals the bare TYPE name of another, unnamed node ("N3" next to verif/harness/zoo/N3)
	Selfs              bool
	Faults             bool
	Lookups            bool
	Twins              bool // a second instance of an existing node type (the twin carries a custom name)
	Alt                bool // nodes of the alt package (same package name, same type names, distinct types)
}

var DefaultOpts = GenOpts{MinNodes: 2, MaxNodes: zoo.K, Variants: "NLP", Aliases: true}

// Gen draws a scenario.
func Gen(t *rapid.T, o GenOpts) *Scenario {
	s := &Scenario{}
	n := rapid.IntRange(o.MinNodes, o.MaxNodes).Draw(t, "nodes")
	idxs := rapid.Permutation([]int{0, 1, 2, 3, 4, 5}).Draw(t, "idxs")[:n]
	sort.Ints(idxs)
	present := 0
	for _, i := range idxs {
		present |= 1 << i
	}
	dense := rapid.IntRange(0, 3).Draw(t, "density")
	for _, i := range idxs {
		ns := NodeSpec{Idx: i, Variant: o.Variants[rapid.IntRange(0, len(o.Variants)-1).Draw(t, "variant")]}
		m := rapid.IntRange(0, 63).Draw(t, "mask")
		switch dense {
		case 0:
			m &= rapid.IntRange(0, 63).Draw(t, "mask2")
		case 3:
			m |= rapid.IntRange(0, 63).Draw(t, "mask2")
		}
		ns.Mask = m & present
		if o.Aliases {
			switch rapid.IntRange(0, 5).Draw(t, "aliaskind") {
			case 0:
				ns.Alias = fmt.Sprintf("t%d", rapid.SampledFrom(idxs).Draw(t, "tname"))
			case 1:
				ns.Alias = fmt.Sprintf("u%d", rapid.SampledFrom(idxs).Draw(t, "uname"))
			case 2:
				ns.Alias = rapid.SampledFrom([]string{"aa", "mm", "zz", "0first", "~last"}).Draw(t, "xname") + fmt.Sprint(i)
			}
		}
		if o.Faults {
			if rapid.IntRange(0, 7).Draw(t, "faps") == 0 {
				ns.FailAPS = zoo.FailAlways
			}
			if rapid.IntRange(0, 7).Draw(t, "finit") == 0 {
				ns.FailInit = zoo.FailAlways
			}
		}
		s.Nodes = append(s.Nodes, ns)
	}
	if o.Twins && rapid.IntRange(0, 2).Draw(t, "twins") == 0 {
		k := rapid.IntRange(1, 2).Draw(t, "ntwins")
		for j := 0; j < k; j++ {
			src := s.Nodes[rapid.IntRange(0, n-1).Draw(t, "twinof")]
			tw := src
			tw.Alias = fmt.Sprintf("%s%d", rapid.SampledFrom([]string{"tw", "zz-tw", "0tw"}).Draw(t, "twname"), j)
			tw.Mask = rapid.IntRange(0, 63).Draw(t, "twmask") & present
			tw.Lookups = nil
			s.Nodes = append(s.Nodes, tw)
		}
	}
	if o.Alt && rapid.IntRange(0, 2).Draw(t, "alt") == 0 {
		k := rapid.IntRange(1, 3).Draw(t, "nalt")
		for j := 0; j < k; j++ {
			s.Nodes = append(s.Nodes, NodeSpec{Idx: j, Variant: 'A'})
		}
	}
	if o.ShortAliases && len(s.Nodes) >= 2 && rapid.IntRange(0, 1).Draw(t, "shortalias") == 0 {
		j := rapid.IntRange(0, len(s.Nodes)-1).Draw(t, "shortaliasholder")
		i := rapid.IntRange(0, len(s.Nodes)-1).Draw(t, "shortaliasof")
		if i != j && s.Nodes[i].Variant != 'A' {
			s.Nodes[i].Alias = ""
			s.Nodes[j].Alias = fmt.Sprintf("%c%d", s.Nodes[i].Variant, s.Nodes[i].Idx)
		}
	}
	// aliases must be unique (duplicate registration is C07's subject)
	seen := map[string]bool{}
	for i := range s.Nodes {
		if a := s.Nodes[i].Alias; a != "" {
			if seen[a] {
				s.Nodes[i].Alias = ""
			}
			seen[a] = true
		}
	}
	if o.Lookups {
		for i := range s.Nodes {
			if s.Nodes[i].Variant == 'H' || rapid.IntRange(0, 3).Draw(t, "haslookup") == 0 {
				k := rapid.IntRange(1, 2).Draw(t, "nlookups")
				for j := 0; j < k; j++ {
					// -1: an optional collaborator nobody registered (the failed lookup is tolerated by the caller)
					s.Nodes[i].Lookups = append(s.Nodes[i].Lookups, rapid.IntRange(-1, len(s.Nodes)-1).Draw(t, "lookup"))
				}
			}
		}
	}
	if o.Selfs {
		k := rapid.IntRange(0, 2).Draw(t, "nselfs")
		if k > 0 {
			s.Selfs = rapid.Permutation(seq(len(zoo.SelfKinds))).Draw(t, "selfs")[:k]
		}
	}
	DrawOrders(t, s)
	return s
}

// DrawOrders (re)draws registration and enumeration orders only.
func DrawOrders(t *rapid.T, s *Scenario) {
	total := len(s.Nodes) + len(s.Selfs) + len(s.Z)
	s.RegPerm = rapid.Permutation(seq(total)).Draw(t, "regperm")
	s.OrdMode = rapid.IntRange(0, 1).Draw(t, "ordmode")
	s.OrdSeed = rapid.Uint64().Draw(t, "ordseed")
	// now and then nothing of the harness sits between the App and its own default factory / registries
	s.NoHook = rapid.IntRange(0, 5).Draw(t, "nohook") == 0
}

func seq(n int) []int {
	r := make([]int, n)
	for i := range r {
		r[i] = i
	}
	return r
}

// ---------------------------------------------------------------------------

type Instance struct {
	S         *Scenario
	Comps     []any // scenario components in scenario order (nodes, selfs, z)
	Behs      []*zoo.Beh
	IDs       map[uintptr]int
	Log       *zoo.Log
	Extra     []any            // additional components (post-processors, runners ...) registered after Comps
	Pre       func(a *app.App) // optional: sees the App before it runs
	ForceHook bool             // the check needs the call trace: never run without the hook

	Tracer *Tracer
	// NoForeign suppresses the unrelated second container that Run otherwise starts now and then
	NoForeign bool
	Out       kit.Outcome
	G         *model.Graph
}

func (s *Scenario) Instantiate() *Instance {
	in := &Instance{S: s, IDs: map[uintptr]int{}, Log: &zoo.Log{}}
	add := func(c any, b *zoo.Beh) {
		in.Comps = append(in.Comps, c)
		in.Behs = append(in.Behs, b)
		in.IDs[reflect.ValueOf(c).Pointer()] = b.ID
	}
	for _, n := range s.Nodes {
		b := &zoo.Beh{ID: len(in.Comps), Alias: n.Alias, Mask: zoo.MaskName(n.Mask), Log: in.Log, FailAPS: n.FailAPS, FailInit: n.FailInit}
		if n.Variant == 'A' {
			add(altzoo.New(n.Idx, b), b) // same-named types from the alt package
			continue
		}
		add(zoo.New(n.Variant, n.Idx, b), b)
	}
	for i, n := range s.Nodes {
		for _, j := range n.Lookups {
			if j == -1 {
				in.Behs[i].InitLookups = append(in.Behs[i].InitLookups, "?no-such-component")
			}
			if j >= 0 && j < len(s.Nodes) { // j == i: a component that fetches itself from the container in its own Init
				nm, _ := model.NameOf(in.Comps[j])
				in.Behs[i].InitLookups = append(in.Behs[i].InitLookups, nm)
			}
		}
	}
	for _, k := range s.Selfs {
		sk := zoo.SelfKinds[k]
		b := &zoo.Beh{ID: len(in.Comps), Alias: sk.Alias, Mask: "m0", Log: in.Log}
		add(sk.New(b), b)
	}
	for k, z := range s.Z {
		b := &zoo.Beh{ID: len(in.Comps), Mask: "m0", Log: in.Log}
		if k < len(s.ZPar) && s.ZPar[k] >= 0 {
			b.Mask = fmt.Sprintf("z%d", s.ZPar[k])
		}
		add(zoo.NewZ(z, b), b)
	}
	return in
}

// Ordered returns the scenario components in registration order.
func (in *Instance) Ordered() []any {
	out := make([]any, 0, len(in.Comps))
	if len(in.S.RegPerm) == len(in.Comps) {
		for _, i := range in.S.RegPerm {
			out = append(out, in.Comps[i])
		}
	} else {
		out = append(out, in.Comps...)
	}
	return out
}

// Run starts the real container on the instance. extraOps are applied after the
// component registration.
func (in *Instance) Run(extraOps ...app.SettingOption) {
	s := in.S
	ord := &orderer{mode: s.OrdMode, seed: s.OrdSeed, off: s.NoPermut}
	in.Tracer = &Tracer{inner: support.DefaultSingletonComponentRegistry(), MaxDepth: len(in.Comps) + len(in.Extra) + 40}
	dr := &permDR{inner: support.DefaultDefinitionRegistry(), ord: ord}
	f := factory.NewWithRegistries(dr, in.Tracer)
	reg := &permReg{SingletonRegistry: support.NewRegistry(), ord: ord}
	ops := []app.SettingOption{app.SetFactory(f), app.SetRegistry(reg), app.SetComponents(in.Ordered()...)}
	if s.NoHook && !in.ForceHook {
		in.Tracer = &Tracer{}
		ops = []app.SettingOption{app.SetComponents(in.Ordered()...)}
	}
	if len(in.Extra) > 0 {
		ops = append(ops, app.SetComponents(in.Extra...))
	}
	ops = append(ops, extraOps...)
	in.Out = kit.RunAppPre(func(a *app.App) {
		if in.Pre != nil {
			in.Pre(a)
		}
		safeLookup := func(name string) (got any, err error) {
			if p := kit.Protect(func() { got, err = a.GetComponentByName(name) }); p != nil {
				if be, ok := p.(BudgetExceeded); ok {
					panic(be)
				}
				err = fmt.Errorf("lookup panicked: %v", p)
			}
			return
		}
		for _, e := range in.Extra {
			switch o := e.(type) {
			case *ObsPP:
				if len(o.InstLookup) > 0 {
					o.Lookup = safeLookup
				}
			case *OrderedObsPP:
				if len(o.InstLookup) > 0 {
					o.Lookup = safeLookup
				}
			case *PriorityObsPP:
				if len(o.InstLookup) > 0 {
					o.Lookup = safeLookup
				}
			case *MarkerObsPP:
				if len(o.InstLookup) > 0 {
					o.Lookup = safeLookup
				}
			}
		}
		for _, b := range in.Behs {
			if b != nil && len(b.InitLookups) > 0 {
				b.Lookup = func(name string) (got any, err error) {
					// a failing / panicking lookup must not derail the callback itself
					if p := kit.Protect(func() { got, err = a.GetComponentByName(name) }); p != nil {
						if be, ok := p.(BudgetExceeded); ok {
							panic(be)
						}
						err = fmt.Errorf("lookup panicked: %v", p)
					}
					return
				}
			}
		}
	}, ops...)
	// now and then another, unrelated container is started in this process right after this one (containers do not
	// share anything: whatever is looked up or created later in this one still goes by its own registries)
	if in.Out.OK() && (s.OrdSeed>>5)%2 == 0 && !in.NoForeign {
		fb := &zoo.Beh{ID: -1, Mask: "m0", Log: &zoo.Log{}}
		_ = kit.RunApp(app.SetComponents(zoo.New('H', 0, fb)))
	}
	// the model's population: what the container reports as registered (that brings the App and other framework
	// components in) PLUS everything this harness registered, under the name the naming rule gives it - a component
	// the container silently left out of its books is still a component of the scenario
	regd := map[string]any{}
	for n, c := range in.Out.App.GetRegisteredComponents() {
		regd[n] = c
	}
	for _, c := range append(append([]any{}, in.Comps...), in.Extra...) {
		n, _ := model.NameOf(c)
		if _, ok := regd[n]; !ok {
			regd[n] = c
		}
	}
	in.G = model.Build(model.Population(regd, in.IDs))
}

// WasCreated reports whether the container created (populated / initialised) scenario component id:
// from the call trace when the hook is in place, otherwise from the component's own callback counters.
func (in *Instance) WasCreated(id int) bool {
	if len(in.Tracer.Events) > 0 {
		n := in.Comp(id).Name
		for _, e := range in.Tracer.Events {
			if e.Op == "create-exit" && !e.Err && e.Flag && e.Name == n {
				return true
			}
		}
		return false
	}
	b := in.Behs[id]
	return b != nil && (b.InitCalls > 0 || b.APSCalls > 0)
}

// Comp returns the model component of scenario id.
func (in *Instance) Comp(id int) *model.Comp {
	return in.G.Find(in.Comps[id])
}

// ---------------------------------------------------------------------------
// observation

// Seen is what a field (or one slice element) holds.
type Seen struct {
	Comp    *model.Comp // registered original, or nil
	Wrapper *zoo.W      // harness wrapper, or nil
	Raw     any
}

func (s Seen) TargetName(g *model.Graph) string {
	switch {
	case s.Comp != nil:
		return s.Comp.Name
	case s.Wrapper != nil:
		if c := g.Find(s.Wrapper.Target); c != nil {
			return c.Name
		}
	}
	return ""
}

func (s Seen) String() string {
	switch {
	case s.Comp != nil:
		return s.Comp.Name
	case s.Wrapper != nil:
		return s.Wrapper.String()
	}
	return fmt.Sprintf("?%T", s.Raw)
}

func identify(g *model.Graph, v reflect.Value) (Seen, bool) {
	for v.Kind() == reflect.Interface {
		if v.IsNil() {
			return Seen{}, false
		}
		v = v.Elem()
	}
	if v.Kind() != reflect.Pointer {
		return Seen{Raw: v.Interface()}, true
	}
	if v.IsNil() {
		return Seen{}, false
	}
	if w, ok := v.Interface().(*zoo.W); ok {
		return Seen{Wrapper: w, Raw: w}, true
	}
	if c := g.Find(v.Interface()); c != nil {
		return Seen{Comp: c, Raw: v.Interface()}, true
	}
	return Seen{Raw: v.Interface()}, true
}

// Observe returns what point p holds after the run.
func Observe(g *model.Graph, p *model.Point) []Seen {
	fv := p.FieldValue()
	var out []Seen
	if p.Multi {
		for i := 0; i < fv.Len(); i++ {
			if s, ok := identify(g, fv.Index(i)); ok {
				out = append(out, s)
			} else {
				out = append(out, Seen{})
			}
		}
		return out
	}
	if s, ok := identify(g, fv); ok {
		out = append(out, s)
	}
	return out
}

// ---------------------------------------------------------------------------
// order control

type orderer struct {
	mode  int
	seed  uint64
	calls uint64
	off   bool
}

func (o *orderer) key(name string, call uint64) uint64 {
	h := fnv.New64a()
	var b [16]byte
	for i := 0; i < 8; i++ {
		b[i] = byte(o.seed >> (8 * i))
		b[8+i] = byte(call >> (8 * i))
	}
	h.Write(b[:])
	h.Write([]byte(name))
	return h.Sum64()
}

func (o *orderer) metas(ms []*component_definition.Meta) []*component_definition.Meta {
	if o.off {
		return ms
	}
	o.calls++
	call := uint64(0)
	if o.mode == 1 {
		call = o.calls
	}
	sort.SliceStable(ms, func(i, j int) bool { return ms[i].Name() < ms[j].Name() })
	sort.SliceStable(ms, func(i, j int) bool { return o.key(ms[i].Name(), call) < o.key(ms[j].Name(), call) })
	return ms
}

func (o *orderer) names(ns []string) []string {
	if o.off {
		return ns
	}
	sort.Strings(ns)
	sort.SliceStable(ns, func(i, j int) bool { return o.key(ns[i], 0) < o.key(ns[j], 0) })
	return ns
}

type permDR struct {
	inner container.DefinitionRegistry
	ord   *orderer
}

func (r *permDR) RegisterMeta(m *component_definition.Meta) { r.inner.RegisterMeta(m) }
func (r *permDR) GetMetas(opts ...container.Option) []*component_definition.Meta {
	return r.ord.metas(r.inner.GetMetas(opts...))
}
func (r *permDR) GetMetaByName(name string) *component_definition.Meta {
	return r.inner.GetMetaByName(name)
}
func (r *permDR) GetMetaOrRegister(name string, c any) *component_definition.Meta {
	return r.inner.GetMetaOrRegister(name, c)
}

type permReg struct {
	container.SingletonRegistry
	ord *orderer
}

func (r *permReg) GetSingletonNames() []string {
	return r.ord.names(r.SingletonRegistry.GetSingletonNames())
}

// ---------------------------------------------------------------------------
// call tracer around the real SingletonComponentRegistry

type TraceEvent struct {
	Op     string // create-enter create-exit get addfactory factory-run add remove increation
	Name   string
	Early  bool
	Result *component_definition.Meta
	Err    bool
	Flag   bool
	Depth  int
}

func (e TraceEvent) String() string {
	r := "nil"
	if e.Result != nil {
		r = fmt.Sprintf("%p", e.Result)
	}
	return fmt.Sprintf("%*s%s(%s early=%v)->%s err=%v flag=%v", e.Depth*2, "", e.Op, e.Name, e.Early, r, e.Err, e.Flag)
}

type BudgetExceeded struct{ What string }

func (b BudgetExceeded) Error() string { return "budget exceeded: " + b.What }

type Tracer struct {
	inner    container.SingletonComponentRegistry
	Events   []TraceEvent
	depth    int
	MaxDepth int
	Creates  map[string]int
	Quiet    bool // do not record increation polls
}

func (t *Tracer) rec(e TraceEvent) {
	e.Depth = t.depth
	if len(t.Events) < 200000 {
		t.Events = append(t.Events, e)
	}
}

func (t *Tracer) AddSingleton(name string, m *component_definition.Meta) {
	t.rec(TraceEvent{Op: "add", Name: name, Result: m})
	t.inner.AddSingleton(name, m)
}

func (t *Tracer) AddSingletonFactory(name string, f container.SingletonFactory) {
	t.rec(TraceEvent{Op: "addfactory", Name: name})
	t.inner.AddSingletonFactory(name, container.FuncSingletonFactory(func() (*component_definition.Meta, error) {
		m, err := f.GetComponent()
		t.rec(TraceEvent{Op: "factory-run", Name: name, Result: m, Err: err != nil})
		return m, err
	}))
}

func (t *Tracer) GetSingleton(name string, allowEarly bool) (*component_definition.Meta, error) {
	m, err := t.inner.GetSingleton(name, allowEarly)
	t.rec(TraceEvent{Op: "get", Name: name, Early: allowEarly, Result: m, Err: err != nil})
	return m, err
}

func (t *Tracer) RemoveSingleton(name string) {
	t.rec(TraceEvent{Op: "remove", Name: name})
	t.inner.RemoveSingleton(name)
}

func (t *Tracer) GetSingletonOrCreateByFactory(name string, f container.SingletonFactory) (*component_definition.Meta, error) {
	if t.Creates == nil {
		t.Creates = map[string]int{}
	}
	t.rec(TraceEvent{Op: "create-enter", Name: name})
	t.depth++
	if t.MaxDepth > 0 && t.depth > t.MaxDepth {
		panic(BudgetExceeded{fmt.Sprintf("creation nesting depth %d exceeds %d (creating %q)", t.depth, t.MaxDepth, name)})
	}
	ran := false
	m, err := t.inner.GetSingletonOrCreateByFactory(name, container.FuncSingletonFactory(func() (*component_definition.Meta, error) {
		ran = true
		t.Creates[name]++
		return f.GetComponent()
	}))
	t.depth--
	t.rec(TraceEvent{Op: "create-exit", Name: name, Result: m, Err: err != nil, Flag: ran})
	return m, err
}

func (t *Tracer) IsSingletonCurrentlyInCreation(name string) bool {
	b := t.inner.IsSingletonCurrentlyInCreation(name)
	if !t.Quiet {
		t.rec(TraceEvent{Op: "increation", Name: name, Flag: b})
	}
	return b
}

func (t *Tracer) Inner() container.SingletonComponentRegistry { return t.inner }

// Dump renders the last n events.
func (t *Tracer) Dump(n int) string {
	ev := t.Events
	if len(ev) > n {
		ev = ev[len(ev)-n:]
	}
	var sb strings.Builder
	for _, e := range ev {
		sb.WriteString(e.String() + "\n")
	}
	return sb.String()
}
