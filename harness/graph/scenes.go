package graph

import (
	"fmt"
	"path"
	"reflect"

	"pgregory.net/rapid"
	"verif/harness/kit"
	"verif/harness/model"
)

// LazyAfterOther is a history shared by several properties: a container is started, then ANOTHER container of the
// same process is started (same component types, partly the same names, other objects), and only then the lazy
// components of the first one are looked up - and so created and populated. Containers share nothing: every point of
// the first container's components holds admissible components of the FIRST container only, completely.
// It returns the description, labels and whether lazy components were created after the other start.
func LazyAfterOther(t *rapid.T, prop string, rank bool) (string, []string, bool) {
	opts := GenOpts{MinNodes: 2, MaxNodes: 6, Variants: "QJHDLLL", Aliases: true, Alt: true}
	s := Gen(t, opts)
	in := s.Instantiate()
	in.NoForeign = true
	in.Run()
	desc := "lazy-after-other-container " + s.Shape()
	if in.Out.Panic != nil {
		t.Fatalf("%s: start-up panicked: %v\nscenario: %s", prop, in.Out.Panic, desc)
	}
	if in.Out.Err != nil {
		return desc, []string{"first-start-failed"}, false
	}
	s2 := Gen(t, opts)
	in2 := s2.Instantiate()
	in2.NoForeign = true
	in2.Run()
	desc += " | other container: " + s2.Shape()
	labels := []string{"other-container-started"}
	if in2.Out.Err != nil {
		labels = append(labels, "other-container-failed")
	}
	lazies := 0
	for _, c := range in.G.Pop {
		if c.ID < 0 {
			continue
		}
		if c.Lazy && !in.WasCreated(c.ID) {
			lazies++
		}
		var lerr error
		if p := kit.Protect(func() { _, lerr = in.Out.App.GetComponentByName(c.Name) }); p != nil || lerr != nil {
			t.Fatalf("%s: after the successful start (and the start of another container of this process) the lookup of %q fails: %v %v\nscenario: %s", prop, c.Name, p, lerr, desc)
		}
	}
	if err := CheckWiringOpt(in.G, WiringOpts{Complete: true, Rank: rank}); err != nil {
		t.Fatalf("%s: components created after another container of this process had started: %v\nscenario: %s", prop, err, desc)
	}
	if lazies > 0 {
		labels = append(labels, fmt.Sprintf("lazy-created-after-other-start"))
	}
	return desc, labels, lazies > 0
}

// VariantLookups asks the started container for every scenario component under names that are NOT its registered
// name but look like it: blanks around the name, and - for a component with a custom name - its default
// package/type name. Such a lookup either fails or hands out the very instance the registered name gives; in no case
// does it create anything (no initialization callback runs a second time).
func VariantLookups(in *Instance) error {
	type snap struct{ init, aps int }
	// first the lookups under the registered names themselves (they may create a lazy component, or re-attempt a
	// creation that was refused before - which runs callbacks again, legitimately) ...
	want := map[string]any{}
	for _, c := range in.G.Pop {
		if c.ID < 0 || !in.WasCreated(c.ID) {
			continue
		}
		var got any
		var err error
		if p := kit.Protect(func() { got, err = in.Out.App.GetComponentByName(c.Name) }); p == nil && err == nil {
			want[c.Name] = got
		}
	}
	// ... then, from that state on, the look-alike names: nothing is created by them
	before := map[int]snap{}
	for i, b := range in.Behs {
		if b != nil {
			before[i] = snap{b.InitCalls, b.APSCalls}
		}
	}
	for _, c := range in.G.Pop {
		want, ok := want[c.Name]
		if c.ID < 0 || !ok {
			continue
		}
		variants := []string{" " + c.Name, c.Name + " ", "\t" + c.Name}
		if c.Named {
			t := c.Typ
			for t.Kind() == reflect.Pointer {
				t = t.Elem()
			}
			if t.Name() != "" {
				variants = append(variants, path.Join(t.PkgPath(), t.Name()))
			}
		}
		for _, v := range variants {
			taken := false
			for _, o := range in.G.Pop {
				if o.Name == v {
					taken = true // that spelling is another component's registered name
				}
			}
			if taken {
				continue
			}
			var got any
			var err error
			if p := kit.Protect(func() { got, err = in.Out.App.GetComponentByName(v) }); p != nil || err != nil {
				continue
			}
			if got != want {
				return fmt.Errorf("GetComponentByName(%q) returns %T %p, GetComponentByName(%q) returns %T %p: two versions of one component are handed out", v, got, got, c.Name, want, want)
			}
		}
	}
	for i, b := range in.Behs {
		if b == nil {
			continue
		}
		if s := before[i]; b.InitCalls != s.init || b.APSCalls != s.aps {
			n, _ := model.NameOf(in.Comps[i])
			return fmt.Errorf("lookups under names that only resemble registered ones ran initialization callbacks of %q again (Init %d -> %d, AfterPropertiesSet %d -> %d)", n, s.init, b.InitCalls, s.aps, b.APSCalls)
		}
	}
	return nil
}
