package graph

import (
	"fmt"

	"github.com/go-kid/ioc/component_definition"
	"verif/harness/zoo"
)

// ---------------------------------------------------------------------------
// ObsPP: dependency-free observing post-processor. Logs before/after
// initialization (with a snapshot of the populated fields taken in "before")
// and counts creations per name (deterministic termination budget).

type ObsPP struct {
	Tag     string
	Log     *zoo.Log
	IDOf    func(c any) int
	Created map[string]int
	OrderV  int

	FailBefore, FailAfter, FailEarly, FailInst string // component name on which the callback fails
	FailProps, FailBeforeInst                  string
	FailAfterSubstituteOnly                    bool // FailAfter applies to substitutes (*zoo.W) only: the registered object itself passes

	// InstLookup: while component <key> is being populated (after-instantiation callback) the processor fetches
	// component <value> from the container, like a processor that resolves its own collaborators programmatically.
	InstLookup map[string]string
	Lookup     func(name string) (any, error)
	InstLooked []string
	NoBudget   bool // creations are repeated on purpose (retries after failures): no once-per-name budget
}

func (o *ObsPP) Naming() string { return "obs-pp-" + o.Tag }

func (o *ObsPP) id(c any) int {
	if o.IDOf == nil {
		return -1
	}
	return o.IDOf(c)
}

func (o *ObsPP) PostProcessBeforeInitialization(c any, name string) (any, error) {
	o.Log.Add(zoo.Event{Kind: "before", ID: o.id(c), Name: name, Snap: zoo.Snap(c), Note: o.Tag})
	if o.FailBefore != "" && o.FailBefore == name {
		return nil, zoo.ErrInjected
	}
	return c, nil
}

func (o *ObsPP) PostProcessAfterInitialization(c any, name string) (any, error) {
	if o.FailAfter != "" && o.FailAfter == name && o.FailAfterSubstituteOnly {
		if _, isW := c.(*zoo.W); !isW {
			o.Log.Add(zoo.Event{Kind: "after-passed", ID: o.id(c), Name: name, Note: o.Tag})
			return c, nil
		}
	}
	o.Log.Add(zoo.Event{Kind: "after", ID: o.id(c), Name: name, Note: o.Tag})
	if o.FailAfter != "" && o.FailAfter == name {
		return nil, zoo.ErrInjected
	}
	return c, nil
}

func (o *ObsPP) PostProcessBeforeInstantiation(m *component_definition.Meta, name string) (any, error) {
	if o.FailBeforeInst != "" && o.FailBeforeInst == name {
		o.Log.Add(zoo.Event{Kind: "beforeinst", ID: -1, Name: name, Note: o.Tag})
		return nil, zoo.ErrInjected
	}
	return nil, nil
}

func (o *ObsPP) PostProcessAfterInstantiation(c any, name string) (bool, error) {
	if o.Created == nil {
		o.Created = map[string]int{}
	}
	o.Created[name]++
	if o.Created[name] > 1 && !o.NoBudget {
		panic(BudgetExceeded{fmt.Sprintf("component %q is being created for the %d. time in one start", name, o.Created[name])})
	}
	o.Log.Add(zoo.Event{Kind: "inst", ID: o.id(c), Name: name, Note: o.Tag})
	if target, ok := o.InstLookup[name]; ok && o.Lookup != nil {
		_, err := o.Lookup(target)
		o.InstLooked = append(o.InstLooked, fmt.Sprintf("%s->%s err=%v", name, target, err != nil))
	}
	if o.FailInst != "" && o.FailInst == name {
		return false, zoo.ErrInjected
	}
	return o.FailProps != "" && o.FailProps == name, nil
}

func (o *ObsPP) PostProcessProperties(p []*component_definition.Property, c any, name string) ([]*component_definition.Property, error) {
	if o.FailProps != "" && o.FailProps == name {
		o.Log.Add(zoo.Event{Kind: "props", ID: o.id(c), Name: name, Note: o.Tag})
		return nil, zoo.ErrInjected
	}
	return nil, nil
}

func (o *ObsPP) GetEarlyBeanReference(c any, name string) (any, error) {
	o.Log.Add(zoo.Event{Kind: "early", ID: o.id(c), Name: name, Note: o.Tag})
	if o.FailEarly != "" && o.FailEarly == name {
		return nil, zoo.ErrInjected
	}
	return c, nil
}

// OrderedObsPP is an ObsPP that takes part in ordering.
type OrderedObsPP struct{ ObsPP }

func (o *OrderedObsPP) Order() int { return o.OrderV }

// PriorityObsPP is an ObsPP that is priority-ordered (it sorts before the built-in configuration processors).
type PriorityObsPP struct{ ObsPP }

func (o *PriorityObsPP) Order() int { return o.OrderV }
func (o *PriorityObsPP) Priority()  {}

// MarkerObsPP carries the Priority marker but has no Order method: it is an unordered participant.
type MarkerObsPP struct{ ObsPP }

func (o *MarkerObsPP) Priority() {}

// ---------------------------------------------------------------------------
// WrapPP: substituting post-processor. Plan per component name.

const (
	WrapNo   = 0
	WrapNew  = 1 // a fresh wrapper
	WrapSame = 2 // (after-init only) the wrapper handed out as early reference, if any; else fresh
	// WrapUnlessEarly (after-init only): the auto-proxy idiom - a component that was already proxied when its
	// early reference was requested is returned unchanged, every other one is wrapped now.
	WrapUnlessEarly = 3
)

type WrapPlan struct {
	Early, Before, After int
	Inst                 int // 1: PostProcessBeforeInstantiation answers with a substitute (the component is never populated / initialised)
}

func (p WrapPlan) String() string {
	s := fmt.Sprintf("e%db%da%d", p.Early, p.Before, p.After)
	if p.Inst != 0 {
		s += "i1"
	}
	return s
}

type WrapPP struct {
	Plan    map[string]WrapPlan
	IDOf    func(c any) int
	serial  int
	EarlyW  map[string]*zoo.W
	Made    []*zoo.W
	EarlyN  map[string]int // how often the early-reference callback ran per name
	Wrapped map[string][]*zoo.W
	InstRaw []string // names whose registered instance was handed back by PostProcessBeforeInstantiation
}

func (w *WrapPP) Naming() string { return "wrap-pp" }

func (w *WrapPP) mk(c any, name, when string) *zoo.W {
	w.serial++
	id := -1
	if w.IDOf != nil {
		id = w.IDOf(c)
	}
	x := &zoo.W{Target: c, TargetID: id, Serial: w.serial, When: when}
	w.Made = append(w.Made, x)
	if w.Wrapped == nil {
		w.Wrapped = map[string][]*zoo.W{}
	}
	w.Wrapped[name] = append(w.Wrapped[name], x)
	return x
}

func (w *WrapPP) PostProcessBeforeInitialization(c any, name string) (any, error) {
	if w.Plan[name].Before == WrapNew {
		if _, isW := c.(*zoo.W); !isW {
			return w.mk(c, name, "before"), nil
		}
	}
	return c, nil
}

func (w *WrapPP) PostProcessAfterInitialization(c any, name string) (any, error) {
	switch w.Plan[name].After {
	case WrapNew:
		if x, isW := c.(*zoo.W); isW {
			c = x.Target
		}
		return w.mk(c, name, "after"), nil
	case WrapUnlessEarly:
		if w.EarlyW[name] != nil {
			return c, nil
		}
		if _, isW := c.(*zoo.W); isW {
			return c, nil
		}
		return w.mk(c, name, "after"), nil
	case WrapSame:
		if e := w.EarlyW[name]; e != nil {
			return e, nil
		}
		if _, isW := c.(*zoo.W); isW {
			return c, nil
		}
		return w.mk(c, name, "after"), nil
	}
	return c, nil
}

func (w *WrapPP) PostProcessBeforeInstantiation(m *component_definition.Meta, name string) (any, error) {
	if w.Plan[name].Inst == WrapNew {
		return w.mk(m.Raw, name, "beforeinst"), nil
	}
	if w.Plan[name].Inst == WrapSame {
		// "this one is ready made": the registered instance itself is returned - the container takes it as it is
		// (no population, no initialization methods), only the after-initialization callbacks are applied
		w.InstRaw = append(w.InstRaw, name)
		return m.Raw, nil
	}
	return nil, nil
}
func (w *WrapPP) PostProcessAfterInstantiation(c any, name string) (bool, error) { return false, nil }
func (w *WrapPP) PostProcessProperties(p []*component_definition.Property, c any, name string) ([]*component_definition.Property, error) {
	return nil, nil
}

func (w *WrapPP) GetEarlyBeanReference(c any, name string) (any, error) {
	if w.EarlyN == nil {
		w.EarlyN = map[string]int{}
		w.EarlyW = map[string]*zoo.W{}
	}
	w.EarlyN[name]++
	if w.Plan[name].Early == WrapNew {
		x := w.mk(c, name, "early")
		w.EarlyW[name] = x
		return x, nil
	}
	return c, nil
}

// PlainWrapPP substitutes around initialization only and is NOT instantiation-aware: it implements just
// PostProcessBeforeInitialization / PostProcessAfterInitialization (no early-reference callback at all).
type PlainWrapPP struct {
	Plan   map[string]WrapPlan
	serial int
	Made   []*zoo.W
}

func (w *PlainWrapPP) Naming() string { return "plain-wrap-pp" }

func (w *PlainWrapPP) PostProcessBeforeInitialization(c any, name string) (any, error) {
	if w.Plan[name].Before == WrapNew {
		if _, isW := c.(*zoo.W); !isW {
			w.serial++
			x := &zoo.W{Target: c, TargetID: -1, Serial: 1000 + w.serial, When: "before"}
			w.Made = append(w.Made, x)
			return x, nil
		}
	}
	return c, nil
}

func (w *PlainWrapPP) PostProcessAfterInitialization(c any, name string) (any, error) {
	if w.Plan[name].After != WrapNo {
		if x, isW := c.(*zoo.W); isW {
			c = x.Target
		}
		w.serial++
		x := &zoo.W{Target: c, TargetID: -1, Serial: 1000 + w.serial, When: "after"}
		w.Made = append(w.Made, x)
		return x, nil
	}
	return c, nil
}

// OrderedWrapPP is a WrapPP that takes part in ordering: it sorts in front of every unordered post-processor (the
// nodes that are post-processors themselves among them), so it is already active while those are being prepared.
type OrderedWrapPP struct{ *WrapPP }

func (o *OrderedWrapPP) Order() int { return -5 }
