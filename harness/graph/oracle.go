package graph

import (
	"fmt"
	"reflect"

	"verif/harness/model"
	"verif/harness/zoo"
)

// CheckWiring compares the observed field values with the model.
//
//	always:  every value is a registered component admissible for the point,
//	         never the holder itself, no duplicates in a slice
//	required points of created components: populated
//	strict:  optional satisfiable points populated too, slices complete,
//	         single values inside the top-ranked (tied) set
func CheckWiring(g *model.Graph, strict bool) error {
	return CheckWiringOpt(g, WiringOpts{Complete: strict, Rank: strict})
}

// WiringOpts selects how much of the model is asserted.
type WiringOpts struct {
	Complete bool // optional satisfiable points populated, slices complete
	Rank     bool // single values inside the top-ranked (tied) set
	Only     func(p *model.Point) bool
}

func CheckWiringOpt(g *model.Graph, o WiringOpts) error {
	strict := o.Complete
	must, _ := g.Created()
	for _, c := range g.Pop {
		for _, p := range g.Points[c] {
			if o.Only != nil && !o.Only(p) {
				continue
			}
			if !injectableType(p.Field.Type) {
				continue // a wire / func tag on a type nothing can be injected into (decoy fields): checked by value elsewhere
			}
			obs := Observe(g, p)
			seen := map[*model.Comp]bool{}
			for i := range obs {
				// a harness wrapper stands for the component it wraps
				if obs[i].Comp == nil && obs[i].Wrapper != nil {
					var tgt any = obs[i].Wrapper
					for {
						w, isW := tgt.(*zoo.W)
						if !isW {
							break
						}
						tgt = w.Target
					}
					obs[i].Comp = g.Find(tgt)
				}
			}
			for _, s := range obs {
				if s.Comp == nil {
					return fmt.Errorf("%v holds %v which is not a registered component", p, s)
				}
				if s.Comp == c {
					return fmt.Errorf("%v is wired to its own holder", p)
				}
				if !inSet(p.Cands, s.Comp) {
					return fmt.Errorf("%v holds %s which is not admissible (admissible: %v)", p, s.Comp.Name, p.Cands)
				}
				if seen[s.Comp] {
					return fmt.Errorf("%v holds %s twice", p, s.Comp.Name)
				}
				seen[s.Comp] = true
			}
			if !must[c] {
				continue
			}
			if len(p.Cands) == 0 && len(obs) != 0 {
				return fmt.Errorf("%v has no admissible target yet holds %v", p, obs)
			}
			if p.Required && len(p.Cands) > 0 && len(obs) == 0 {
				return fmt.Errorf("required point %v is empty after a successful start (admissible: %v)", p, p.Cands)
			}
			if strict {
				if p.Multi {
					if len(obs) != len(p.Cands) {
						return fmt.Errorf("%v holds %d of %d admissible components: %v vs %v", p, len(obs), len(p.Cands), obs, p.Cands)
					}
				} else if len(p.Cands) > 0 {
					if len(obs) != 1 {
						return fmt.Errorf("%v is empty although %v are admissible", p, p.Cands)
					}
					if o.Rank && !inSet(p.Top, obs[0].Comp) {
						return fmt.Errorf("%v holds %s but the top-ranked candidates are %v", p, obs[0].Comp.Name, p.Top)
					}
				}
			}
		}
	}
	return nil
}

func injectableType(t reflect.Type) bool {
	if t.Kind() == reflect.Slice {
		t = t.Elem()
	}
	return t.Kind() == reflect.Pointer || t.Kind() == reflect.Interface
}

func inSet(xs []*model.Comp, c *model.Comp) bool {
	for _, x := range xs {
		if x == c {
			return true
		}
	}
	return false
}

// HasCycle reports whether the model graph (certain + tied edges) restricted to
// scenario components has a directed cycle, and the length of the shortest one.
func HasCycle(g *model.Graph) (bool, int) {
	best := 0
	for _, c := range g.Pop {
		if c.ID < 0 {
			continue
		}
		// BFS from c back to c
		dist := map[*model.Comp]int{}
		q := []*model.Comp{c}
		for len(q) > 0 {
			x := q[0]
			q = q[1:]
			for _, t := range g.PossibleEdges(x) {
				if t == c {
					l := dist[x] + 1
					if best == 0 || l < best {
						best = l
					}
				}
				if _, ok := dist[t]; !ok && t != c {
					dist[t] = dist[x] + 1
					q = append(q, t)
				}
			}
		}
	}
	return best > 0, best
}
