// Package zoo (import path verif/harness/alt/zoo) deliberately repeats the package name and the type names
// of the main zoo: reflect.Type.String() of zoo.N0 / zoo.PA / zoo.INode / zoo.IA is identical for both
// packages although the types are distinct. Anything keyed by a printed type name confuses them.
package zoo

import (
	base "verif/harness/zoo"
)

type INode interface {
	Beh() *base.Beh
	isAlt()
}

type IA interface {
	Beh() *base.Beh
	isAltA()
}

// N0 -> N1 -> N2 -> N0: a pointer ring of its own, plus an interface slice of its own.
type N0 struct {
	base.Core
	Pv *N1     `wire:",required=false"`
	QS []INode `wire:",required=false"`
	V  string  `value:"alt0"`
}
type N1 struct {
	base.Core
	Pv *N2     `wire:",required=false"`
	QS []INode `wire:",required=false"`
	V  string  `value:"alt1"`
}
type N2 struct {
	base.Core
	Pv *N0     `wire:",required=false"`
	QS []INode `wire:",required=false"`
	V  string  `value:"alt2"`
}

func (*N0) isAlt() {}
func (*N1) isAlt() {}
func (*N2) isAlt() {}

type PA struct{ base.PCore }
type PB struct{ base.QCore }

func (*PA) isAltA() {}
func (*PB) isAltA() {}

func New(idx int, b *base.Beh) any {
	var c any
	switch idx % 3 {
	case 0:
		c = &N0{Core: base.Core{B: b}}
	case 1:
		c = &N1{Core: base.Core{B: b}}
	default:
		c = &N2{Core: base.Core{B: b}}
	}
	b.Self = c
	return c
}

func NewPA(b *base.Beh) any { c := &PA{base.PCore{B: b}}; b.Self = c; return c }
func NewPB(b *base.Beh) any { c := &PB{base.QCore{PCore: base.PCore{B: b}}}; b.Self = c; return c }
