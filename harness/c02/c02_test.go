package c02

import (
	"encoding/json"
	"fmt"
	"github.com/go-kid/ioc"
	"github.com/go-kid/ioc/app"
	"github.com/go-kid/ioc/container/support"
	"os"
	"reflect"
	"testing"

	"pgregory.net/rapid"
	"verif/harness/graph"
	"verif/harness/kit"
	"verif/harness/model"
	"verif/harness/zoo"
)

func TestMain(m *testing.M) { kit.Main(m) }

const rule = "digraphs over node components (rich family: qualified slices + ring/group/by-name edges, required variants placed where the model says satisfiable or deliberately not, self-only family; pure family: every digraph on n<=3 (thorough: 4) nodes x creation orders x required/optional); no substituting post-processor; non-trivial = model graph has a directed cycle or an only-self point; distinct by scenario shape; since rounds 7/8 also stand-ins pre-filled into single-valued points, 1300 mutually referring components of one type, and (own process) a cycle announced through ioc.Register started by ioc.Run with a registry of its own"

type fataler interface{ Fatalf(string, ...any) }

// decide runs the scenario and applies the C02 oracle.
func decide(t fataler, s *graph.Scenario, tag string) {
	in := s.Instantiate()
	// an observing (never substituting) post-processor; which ordering class it is in follows from the scenario:
	// unordered (sorts last), ordered or priority-ordered (sorts in front of the built-in processors)
	base := graph.ObsPP{Tag: "c02", Log: in.Log}
	switch (s.OrdSeed + uint64(len(s.Nodes)) + uint64(len(s.RegPerm))) % 3 {
	case 0:
		in.Extra = append(in.Extra, &base)
	case 1:
		in.Extra = append(in.Extra, &graph.OrderedObsPP{ObsPP: base})
	default:
		in.Extra = append(in.Extra, &graph.PriorityObsPP{ObsPP: base})
	}
	// stateless (zero-size) components next to the nodes: members of every qualified slice
	nst := int((s.OrdSeed>>3)+uint64(len(s.Nodes))) % 4
	in.Extra = append(in.Extra, zoo.Stateless(nst)...)
	// now and then single-valued points already hold a stand-in (an object that is no component of this container -
	// a constructor default, the leftover of an earlier container) when the start begins: the container still
	// populates them with their targets
	prefilled := 0
	if (s.OrdSeed>>7)%4 == 0 {
		for i, c := range in.Comps {
			v := reflect.ValueOf(c).Elem()
			for _, fn := range []string{"Nx", "G", "BN", "NQ"} {
				f := v.FieldByName(fn)
				if f.IsValid() && f.CanSet() && f.Kind() == reflect.Interface && (i+len(fn)+int(s.OrdSeed>>9))%2 == 0 {
					w := reflect.ValueOf(&zoo.W{TargetID: -7, When: "prefilled"})
					if w.Type().AssignableTo(f.Type()) {
						f.Set(w)
						prefilled++
					}
				}
			}
		}
	}
	in.Run()
	desc := fmt.Sprintf("%s %s stateless=%d prefilled=%d", tag, s.Shape(), nst, prefilled)
	if in.Out.Panic != nil {
		if b, ok := in.Out.Panic.(graph.BudgetExceeded); ok {
			t.Fatalf("C02: start-up did not terminate within its step budget: %v\nscenario: %s", b, desc)
		}
		t.Fatalf("C02: start-up panicked: %v\nscenario: %s", in.Out.Panic, desc)
	}
	g := in.G
	verdict := g.WiringVerdict()
	labels := []string{"verdict/" + verdict.String()}
	cyc, clen := graph.HasCycle(g)
	if cyc {
		labels = append(labels, fmt.Sprintf("cycle-len-%d", min(clen, 6)))
	}
	selfOnly := false
	for _, c := range g.Pop {
		for _, p := range g.Points[c] {
			if p.SelfOnly {
				selfOnly = true
				if p.Required {
					labels = append(labels, "self-only-required")
				} else {
					labels = append(labels, "self-only-optional")
				}
			}
		}
	}
	switch verdict {
	case model.MustSucceed:
		if in.Out.Err != nil {
			t.Fatalf("C02: every required point has a target among distinct components, yet start-up failed: %v\nscenario: %s\nreg %v ordmode %d seed %x", in.Out, desc, s.RegPerm, s.OrdMode, s.OrdSeed)
		}
	case model.MustFail:
		if in.Out.Err == nil {
			un, _ := g.Unsatisfied()
			t.Fatalf("C02: required point(s) %v can only be satisfied by nothing / their own holder, yet start-up succeeded\nscenario: %s", un, desc)
		}
	}
	if in.Out.Err == nil && prefilled > 0 {
		// a point without any admissible component is left untouched: its pre-filled content is not the container's doing
		for _, c := range g.Pop {
			for _, p := range g.Points[c] {
				// ... and so is every point of a lazy component that nobody has created yet (it is populated by its lookup below)
				if (len(p.Cands) == 0 || (c.ID >= 0 && c.Lazy && !in.WasCreated(c.ID))) && !p.Multi {
					if w, isW := p.FieldValue().Interface().(*zoo.W); isW && w.When == "prefilled" {
						p.FieldValue().Set(reflect.Zero(p.Field.Type))
					}
				}
			}
		}
		labels = append(labels, "prefilled-single-points")
	}
	if in.Out.Err == nil {
		// every populated point holds admissible targets only, required ones hold theirs, and slices hold ALL of theirs
		if err := graph.CheckWiringOpt(g, graph.WiringOpts{Complete: true, Rank: true}); err != nil {
			t.Fatalf("C02: %v\nscenario: %s\nreg %v ordmode %d seed %x", err, desc, s.RegPerm, s.OrdMode, s.OrdSeed)
		}
		labels = append(labels, "started")
		// nothing fails and nothing substitutes: every component - the lazy ones nobody needed so far included - can be
		// looked up by name now, and is then wired completely as well
		lazies := 0
		for _, c := range g.Pop {
			if c.ID < 0 {
				continue
			}
			if c.Lazy {
				lazies++
			}
			var lerr error
			if p := kit.Protect(func() { _, lerr = in.Out.App.GetComponentByName(c.Name) }); p != nil || lerr != nil {
				t.Fatalf("C02: after the successful start the lookup of %q fails: %v %v\nscenario: %s", c.Name, p, lerr, desc)
			}
		}
		if lazies > 0 {
			if err := graph.CheckWiringOpt(g, graph.WiringOpts{Complete: true, Rank: true}); err != nil {
				t.Fatalf("C02: after looking every component up: %v\nscenario: %s", err, desc)
			}
			labels = append(labels, "lazy-components-looked-up")
		}
		if nst >= 2 {
			labels = append(labels, "stateless-components")
		}
		// now and then the very same component objects (fields still populated) are started in a second, fresh
		// container: same graph, so it starts again and every required point holds its target
		if (s.OrdSeed+uint64(len(s.Nodes)))%5 == 0 {
			in.Extra = append([]any{&graph.ObsPP{Tag: "c02-second", Log: in.Log}}, zoo.Stateless(nst)...)
			in.Run()
			if in.Out.Panic != nil || in.Out.Err != nil {
				t.Fatalf("C02: the same components started in a second container: %v (the first start succeeded)\nscenario: %s", in.Out, desc)
			}
			if err := graph.CheckWiringOpt(in.G, graph.WiringOpts{Complete: true, Rank: true}); err != nil {
				t.Fatalf("C02: second container over the same components: %v\nscenario: %s", err, desc)
			}
			labels = append(labels, "second-container-same-objects")
		}
	} else {
		labels = append(labels, "failed-cleanly")
	}
	kit.Rec.Case(desc, cyc || selfOnly, dedup(labels)...)
}

func dedup(xs []string) []string {
	m := map[string]bool{}
	var out []string
	for _, x := range xs {
		if !m[x] {
			m[x] = true
			out = append(out, x)
		}
	}
	return out
}

// premodel builds the model of the scenario components alone (framework
// components never match node interfaces or names).
func premodel(s *graph.Scenario) (*graph.Instance, *model.Graph) {
	in := s.Instantiate()
	reg := map[string]any{}
	for _, c := range in.Comps {
		n, _ := model.NameOf(c)
		reg[n] = c
	}
	return in, model.Build(model.Population(reg, in.IDs))
}

func TestCycles(t *testing.T) {
	kit.Rec.Rule(rule)
	rapid.Check(t, func(t *rapid.T) {
		s := graph.Gen(t, graph.GenOpts{MinNodes: 2, MaxNodes: 6, Variants: "NNNLPEU", Aliases: true, Selfs: true, Alt: true})
		// place required variants: mostly where satisfiable, sometimes not
		in, g := premodel(s)
		for i := range s.Nodes {
			if s.Nodes[i].Variant != 'N' && s.Nodes[i].Variant != 'E' {
				continue
			}
			c := g.Find(in.Comps[i])
			sat, satBC := true, false
			for _, p := range g.Points[c] {
				if (p.Field.Name == "QS" || p.Field.Name == "Nx") && !p.Satisfiable() {
					sat = false
				}
				if p.Field.Name == "BC" && p.Satisfiable() {
					satBC = true
				}
			}
			k := rapid.IntRange(0, 9).Draw(t, "req")
			if (sat && k < 5) || (!sat && k == 0) {
				switch {
				case s.Nodes[i].Variant == 'E':
					s.Nodes[i].Variant = 'F' // required points declared inside embedded structs
				case k == 1 || k == 2:
					s.Nodes[i].Variant = 'X' // the node is also a (pass-through) component post-processor
				case satBC || k == 0:
					s.Nodes[i].Variant = 'K' // also a required by-name point whose name comes out of a placeholder
				default:
					s.Nodes[i].Variant = 'R'
				}
			}
		}
		decide(t, s, "rich")
	})
}

func TestScale(t *testing.T) {
	kit.Rec.Rule(rule)
	rapid.Check(t, func(t *rapid.T) {
		s := &graph.Scenario{}
		switch rapid.IntRange(0, 2).Draw(t, "kind") {
		case 0:
			for i := 0; i < zoo.ZN; i++ {
				s.Z = append(s.Z, i)
			}
		case 1:
			n := rapid.IntRange(20, 199).Draw(t, "n")
			o := rapid.IntRange(0, 199).Draw(t, "o")
			for i := 0; i < n; i++ {
				s.Z = append(s.Z, (o+i)%zoo.ZN)
			}
		default:
			for i := 0; i < zoo.ZN; i++ {
				if rapid.IntRange(0, 2).Draw(t, "in") > 0 {
					s.Z = append(s.Z, i)
				}
			}
		}
		drawZPar(t, s)
		graph.DrawOrders(t, s)
		decide(t, s, "scale")
	})
}

// ---- exhaustive: every digraph on n pure nodes x creation orders x required/optional

var aliasRanks = []string{"a", "b", "c", "d"}

func perms(n int) [][]int {
	var out [][]int
	var rec func(cur []int, used int)
	rec = func(cur []int, used int) {
		if len(cur) == n {
			out = append(out, append([]int(nil), cur...))
			return
		}
		for i := 0; i < n; i++ {
			if used&(1<<i) == 0 {
				rec(append(cur, i), used|1<<i)
			}
		}
	}
	rec(nil, 0)
	return out
}

type dumpT struct {
	failed bool
	msg    string
}

func (d *dumpT) Fatalf(f string, a ...any) { d.failed = true; d.msg = fmt.Sprintf(f, a...); panic(d) }

// replayCase: when VERIF_REPLAY names a JSON dump of this enumeration, only that case is run.
func replayCase(n int) (adj, perm, req int, ok bool) {
	p := os.Getenv("VERIF_REPLAY")
	if p == "" {
		return
	}
	b, err := os.ReadFile(p)
	if err != nil {
		return
	}
	var d struct {
		N, Adj, Req int
		Perm        []int
	}
	if json.Unmarshal(b, &d) != nil || d.N != n {
		return 0, 0, 0, false
	}
	for i, q := range perms(n) {
		if fmt.Sprint(q) == fmt.Sprint(d.Perm) {
			return d.Adj, i, d.Req, true
		}
	}
	return
}

func enumerate(t *testing.T, n int, withRequired bool) {
	shard, shards := kit.Shard()
	rAdj, rPerm, rReq, replaying := replayCase(n)
	if os.Getenv("VERIF_REPLAY") != "" && !replaying {
		t.Skip("replay file is for another enumeration")
	}
	ps := perms(n)
	total := 0
	edgesN := n * n
	reqMax := 1
	if withRequired {
		reqMax = 1 << n
	}
	for adj := 0; adj < 1<<edgesN; adj++ {
		if adj%shards != shard && !replaying {
			continue
		}
		for pi, perm := range ps {
			for req := 0; req < reqMax; req++ {
				if replaying && (adj != rAdj || pi != rPerm || req != rReq) {
					continue
				}
				s := &graph.Scenario{OrdMode: (adj + pi + req) % 2, OrdSeed: uint64(adj*131 + pi*17 + req)}
				for i := 0; i < n; i++ {
					// mask of node i: bit h set iff edge h -> i
					m := 0
					for h := 0; h < n; h++ {
						if adj&(1<<(h*n+i)) != 0 {
							m |= 1 << h
						}
					}
					v := byte('Q')
					if (adj+pi+i)%3 == 1 {
						v = 'U' // the same edge set through a func-tag point instead of a wire point
					}
					if req&(1<<i) != 0 {
						v = 'S'
					}
					// alias controls the position in the name-sorted creation order
					s.Nodes = append(s.Nodes, graph.NodeSpec{Idx: i, Variant: v, Mask: m, Alias: aliasRanks[perm[i]] + fmt.Sprint(i)})
				}
				// registration order: rotate with the case number
				rp := ps[(adj+pi+req)%len(ps)]
				s.RegPerm = append([]int(nil), rp...)
				d := &dumpT{}
				func() {
					defer func() {
						if r := recover(); r != nil {
							if r != any(d) {
								panic(r)
							}
						}
					}()
					decide(d, s, fmt.Sprintf("pure%d", n))
				}()
				if d.failed {
					kit.DumpReplay(fmt.Sprintf("c02-exhaustive-n%d-adj%d-perm%d-req%d", n, adj, pi, req), map[string]any{"n": n, "adj": adj, "perm": perm, "req": req, "scenario": s.Shape(), "message": d.msg})
					t.Fatalf("%s", d.msg)
				}
				total++
			}
		}
	}
	if shards == 1 {
		kit.Rec.MarkExhaustive(fmt.Sprintf("all digraphs on %d pure nodes x %d creation orders x %d required/optional assignments (%d runs)", n, len(ps), reqMax, total))
	} else {
		kit.Rec.MarkExhaustive(fmt.Sprintf("all digraphs on %d pure nodes x %d creation orders x %d required/optional assignments (sharded %d ways)", n, len(ps), reqMax, shards))
	}
}

func TestExhaustive2(t *testing.T) { enumerate(t, 2, true) }
func TestExhaustive3(t *testing.T) { enumerate(t, 3, true) }
func TestExhaustive4(t *testing.T) { enumerate(t, 4, false) }

// drawZPar gives every scale-family node a drawn "parent": the node is held by the qualified slice of that
// Z type if it is registered - data-driven edges (random functional graphs: long chains, trees, big cycles)
// on top of the family's static ring / skip / fan-in edges.
func drawZPar(t *rapid.T, s *graph.Scenario) {
	s.ZPar = make([]int, len(s.Z))
	for i := range s.ZPar {
		if rapid.IntRange(0, 3).Draw(t, "haspar") == 0 {
			s.ZPar[i] = -1
		} else {
			s.ZPar[i] = s.Z[rapid.IntRange(0, len(s.Z)-1).Draw(t, "par")]
		}
	}
}

// ---------------------------------------------------------------------------------------------------
// scale: "cycles of any length". Every member refers to every other one (a slice point), so the creation of the first
// one nests through all of them before anything completes.

type DeepMember struct {
	N     int
	Peers []*DeepMember `wire:""`
	Inits int
}

func (m *DeepMember) Naming() string { return fmt.Sprintf("deep-%04d", m.N) }
func (m *DeepMember) Init() error    { m.Inits++; return nil }

func TestStaticDeepCycles(t *testing.T) {
	kit.Rec.Rule(rule)
	for _, n := range []int{3, 600, 1300} {
		ms := make([]any, n)
		for i := range ms {
			ms[i] = &DeepMember{N: i}
		}
		out := kit.RunApp(app.SetComponents(ms...))
		desc := fmt.Sprintf("%d components of one type, each with a slice point of that type (a complete graph of cycles)", n)
		if !out.OK() {
			s := out.String()
			if len(s) > 400 {
				s = s[:400]
			}
			kit.DumpReplay("c02-deep-cycles", map[string]any{"scenario": desc, "outcome": s})
			t.Fatalf("C02: %s: start-up must succeed, got %s", desc, s)
		}
		for _, c := range ms {
			m := c.(*DeepMember)
			if len(m.Peers) != n-1 || m.Inits != 1 {
				t.Fatalf("C02: %s: member %d holds %d peers (want %d), Init ran %d times", desc, m.N, len(m.Peers), n-1, m.Inits)
			}
		}
		kit.Rec.Case(desc, n > 3, "deep-cycles")
	}
}

// ---------------------------------------------------------------------------------------------------
// Components announced process-wide (ioc.Register) and started with ioc.Run: they are components of every such run,
// whatever options the run itself carries - also a registry of its own. Own process (VERIF_GLOBAL_SETTINGS=1).

type GRegA struct {
	B   *GRegB   `wire:""`
	All []GRegIf `wire:""`
}
type GRegB struct {
	C GRegIf `wire:"greg-c"`
}
type GRegC struct {
	A *GRegA `wire:""`
}
type GRegIf interface{ isGReg() }

func (*GRegA) isGReg()        {}
func (*GRegB) isGReg()        {}
func (*GRegC) isGReg()        {}
func (*GRegC) Naming() string { return "greg-c" }

type GRegLocal struct {
	A *GRegA `wire:""`
}

func TestStaticRegisteredCycle(t *testing.T) {
	if os.Getenv("VERIF_GLOBAL_SETTINGS") != "1" {
		t.Skip("changes process-wide state: runs in a process of its own")
	}
	kit.Rec.Rule(rule)
	a, b, c := &GRegA{}, &GRegB{}, &GRegC{}
	ioc.Register(a, b, c)
	for round, ownRegistry := range []bool{false, true, true, false} {
		*a, *b, *c = GRegA{}, GRegB{}, GRegC{}
		local := &GRegLocal{}
		ops := []app.SettingOption{app.SetComponents(local)}
		if ownRegistry {
			ops = append([]app.SettingOption{app.SetRegistry(support.NewRegistry())}, ops...)
		}
		var ap *app.App
		var err error
		if p := kit.Protect(func() { ap, err = ioc.Run(ops...) }); p != nil {
			t.Fatalf("C02: ioc.Run panicked: %v", p)
		}
		desc := fmt.Sprintf("cycle A -> B -> C -> A announced through ioc.Register, run %d through ioc.Run (registry of its own: %v) with one more component that wires A", round, ownRegistry)
		if err != nil {
			kit.DumpReplay("c02-registered-cycle", map[string]any{"scenario": desc, "error": err.Error()})
			t.Fatalf("C02: %s: start-up failed: %v", desc, err)
		}
		if a.B != b || b.C != GRegIf(c) || c.A != a || local.A != a || len(a.All) != 2 {
			kit.DumpReplay("c02-registered-cycle", map[string]any{"scenario": desc, "a": fmt.Sprintf("%+v", *a), "b": fmt.Sprintf("%+v", *b), "c": fmt.Sprintf("%+v", *c), "local": fmt.Sprintf("%+v", *local)})
			t.Fatalf("C02: %s: the start succeeded but required points are not populated by their targets: A=%+v B=%+v C=%+v local=%+v", desc, *a, *b, *c, *local)
		}
		if got, err := ap.GetComponentByName("greg-c"); err != nil || got != any(c) {
			t.Fatalf("C02: %s: lookup of greg-c gives %v, %v", desc, got, err)
		}
		kit.Rec.Case(desc, ownRegistry, "registered-cycle")
	}
}
