package c17

import (
	"encoding/json"
	"fmt"
	"github.com/go-kid/ioc/configure"
	"github.com/go-kid/ioc/configure/binder"
	"math"
	"os"
	"path/filepath"
	"reflect"
	"strconv"
	"strings"
	"testing"
	"time"

	"github.com/go-kid/ioc/app"
	"github.com/go-kid/ioc/configure/loader"
	"gopkg.in/yaml.v3"
	"pgregory.net/rapid"
	"verif/harness/kit"
)

func TestMain(m *testing.M) { kit.Main(m) }

const rule = "round trip: a typed Go value (ints of all widths incl. extremes, uints, floats, bools, strings that are plain / number-like / bool-like / quoted / bracketed / unicode / with spaces, slices, maps, nested structs with yaml tags, pointers) is marshalled to YAML under a key and bound through four twin fields of that type - prefix:\"k\", value:\"${k}\", prop:\"k\" and, for scalars, a literal value tag; oracle: the prefix twin equals the value, the value / prop twins equal the prefix twin, the literal twin equals the literal; non-trivial = the value contains a string that is not plain or a number outside +-2^31 or a composite; distinct by type + value; since rounds 7/8 also a reference binder that is never read in between (Set under re-spelled keys, a struct bound to the whole section), a Configure initialised before the App gets it, a Prefix() that depends on the instance, and a priority-ordered post-processor that declines every component"

type Inner struct {
	A int      `yaml:"a"`
	B string   `yaml:"b"`
	C []int    `yaml:"c"`
	D *float64 `yaml:"d"`
}

type Outer struct {
	Name string            `yaml:"name"`
	In   Inner             `yaml:"in"`
	Tags []string          `yaml:"tags"`
	M    map[string]string `yaml:"m"`
}

var trickyStrings = []string{"1.10", "007", "TRUE", "false", "True", "'x'", "\"q\"", "[a,b]", "[1,2]", "{a:1}", "{}", "map[a:b]", "1e3", "-5", "+7", "0x10", "12345678901234567890", "9007199254740993", " lead", "trail ", "a b", "null", "~", "", "é世", "a:b", "a,b", "#c", "1_000", ".5", "5.", "NaN", "Inf", "-0", "0.0", "1.0", "00", "yes", "no", "on"}

var strGen = rapid.OneOf(
	rapid.SampledFrom(trickyStrings),
	rapid.StringMatching(`[a-z]{1,6}`),
	rapid.StringMatching(`[0-9]{1,4}(\.[0-9]{1,3})?`),
	rapid.StringMatching(`[a-zA-Z0-9 ._-]{0,8}`),
)

type kind struct {
	Name string
	Gen  func(t *rapid.T) any
	Lit  bool // scalar: also test a literal value tag
}

func ptrTo[T any](v T) *T { return &v }

var kinds = []kind{
	{"int", func(t *rapid.T) any {
		return rapid.OneOf(rapid.Int(), rapid.SampledFrom([]int{0, 0, 0, -1, 1, math.MaxInt64, math.MinInt64, 1 << 53, 1<<53 + 1, -(1<<53 + 1)}), rapid.IntRange(-100, 100)).Draw(t, "int")
	}, true},
	{"int8", func(t *rapid.T) any { return rapid.Int8().Draw(t, "int8") }, true},
	{"int32", func(t *rapid.T) any { return rapid.Int32().Draw(t, "int32") }, true},
	{"int64", func(t *rapid.T) any { return rapid.Int64().Draw(t, "int64") }, true},
	{"uint", func(t *rapid.T) any { return rapid.Uint().Draw(t, "uint") }, true},
	{"uint8", func(t *rapid.T) any { return rapid.Uint8().Draw(t, "uint8") }, true},
	{"uint64", func(t *rapid.T) any {
		return rapid.OneOf(rapid.Uint64(), rapid.SampledFrom([]uint64{0, math.MaxUint64, 1 << 63})).Draw(t, "uint64")
	}, true},
	{"float64", func(t *rapid.T) any {
		return rapid.OneOf(rapid.Float64Range(-1e6, 1e6), rapid.SampledFrom([]float64{0, 0, 0, 1.5, -2.25, 1e21, 1e-7, 3.14159, 100}), rapid.Float64()).Filter(func(f float64) bool { return !math.IsNaN(f) && !math.IsInf(f, 0) }).Draw(t, "float64")
	}, true},
	{"float32", func(t *rapid.T) any { return float32(rapid.IntRange(-1000, 1000).Draw(t, "f32n")) / 8 }, true},
	{"bool", func(t *rapid.T) any { return rapid.Bool().Draw(t, "bool") }, true},
	{"string", func(t *rapid.T) any { return strGen.Draw(t, "string") }, true},
	{"[]int", func(t *rapid.T) any { return rapid.SliceOfN(rapid.IntRange(-1000, 1000), 0, 4).Draw(t, "ints") }, false},
	{"[]string", func(t *rapid.T) any { return rapid.SliceOfN(strGen, 0, 3).Draw(t, "strs") }, false},
	{"[]float64", func(t *rapid.T) any {
		return rapid.SliceOfN(rapid.SampledFrom([]float64{0, 1.5, -2.25, 10}), 0, 3).Draw(t, "floats")
	}, false},
	{"map[string]string", func(t *rapid.T) any {
		return rapid.MapOfN(rapid.StringMatching(`[a-z]{1,3}`), strGen, 0, 3).Draw(t, "mss")
	}, false},
	{"map[string]int", func(t *rapid.T) any {
		return rapid.MapOfN(rapid.StringMatching(`[a-z]{1,3}`), rapid.IntRange(-9, 9), 0, 3).Draw(t, "msi")
	}, false},
	{"*int", func(t *rapid.T) any { return ptrTo(rapid.IntRange(-1000, 1000).Draw(t, "pint")) }, false},
	{"*string", func(t *rapid.T) any { return ptrTo(strGen.Draw(t, "pstr")) }, false},
	{"Inner", func(t *rapid.T) any {
		in := Inner{A: rapid.IntRange(-99, 99).Draw(t, "a"), B: strGen.Draw(t, "b"), C: rapid.SliceOfN(rapid.IntRange(0, 9), 0, 3).Draw(t, "c")}
		if rapid.Bool().Draw(t, "hasd") {
			in.D = ptrTo(float64(rapid.IntRange(-40, 40).Draw(t, "d")) / 4)
		}
		return in
	}, false},
	{"*Inner", func(t *rapid.T) any {
		return &Inner{A: rapid.IntRange(-99, 99).Draw(t, "a"), B: strGen.Draw(t, "b")}
	}, false},
	{"[]Inner", func(t *rapid.T) any {
		n := rapid.IntRange(1, 3).Draw(t, "n")
		out := make([]Inner, n)
		for i := range out {
			out[i] = Inner{A: rapid.IntRange(-9, 9).Draw(t, "a"), B: strGen.Draw(t, "b"), C: rapid.SliceOfN(rapid.IntRange(0, 9), 0, 2).Draw(t, "c")}
		}
		return out
	}, false},
	{"map[string]Inner", func(t *rapid.T) any {
		return rapid.MapOfN(rapid.StringMatching(`[a-z]{1,3}`), rapid.Custom(func(t *rapid.T) Inner {
			return Inner{A: rapid.IntRange(-9, 9).Draw(t, "a"), B: strGen.Draw(t, "b")}
		}), 1, 2).Draw(t, "msinner")
	}, false},
	{"map[string]any", func(t *rapid.T) any {
		return rapid.MapOfN(rapid.StringMatching(`[a-z]{1,3}`), rapid.OneOf(
			rapid.Map(rapid.IntRange(-99, 99), func(i int) any { return i }),
			rapid.Map(strGen, func(s string) any { return s }),
			rapid.Map(rapid.Bool(), func(b bool) any { return b }),
			rapid.Map(rapid.SampledFrom([]float64{0.5, 2.25, 1500000.5}), func(f float64) any { return f }),
		), 1, 3).Draw(t, "msa")
	}, false},
	{"[]map[string]any", func(t *rapid.T) any {
		n := rapid.IntRange(1, 2).Draw(t, "n")
		out := make([]map[string]any, n)
		for i := range out {
			out[i] = map[string]any{"k": rapid.StringMatching(`[a-z]{1,4}`).Draw(t, "k"), "n": rapid.IntRange(0, 9).Draw(t, "nn")}
		}
		return out
	}, false},
	{"Outer", func(t *rapid.T) any {
		return Outer{Name: strGen.Draw(t, "name"), In: Inner{A: rapid.IntRange(0, 9).Draw(t, "a"), B: strGen.Draw(t, "b")},
			Tags: rapid.SliceOfN(strGen, 0, 2).Draw(t, "tags"), M: rapid.MapOfN(rapid.StringMatching(`[a-z]{1,2}`), strGen, 0, 2).Draw(t, "m")}
	}, false},
}

// looseAnyNumbers: when set, numbers held in interface-typed positions are compared by value only
// (known finding C17/any-number-kind: they arrive as float64 through value / prop, as int through prefix).
var looseAnyNumbers bool

// norm: nil == empty for slices and maps (YAML cannot tell them apart).
func norm(v reflect.Value) any {
	switch v.Kind() {
	case reflect.Interface:
		if v.IsNil() {
			return nil
		}
		e := v.Elem()
		if looseAnyNumbers {
			switch e.Kind() {
			case reflect.Int, reflect.Int64, reflect.Int32:
				return float64(e.Int())
			case reflect.Uint, reflect.Uint64:
				return float64(e.Uint())
			case reflect.Float32, reflect.Float64:
				return e.Float()
			}
		}
		return norm(e)
	case reflect.Pointer:
		if v.IsNil() {
			return nil
		}
		return []any{"ptr", norm(v.Elem())}
	case reflect.Slice:
		out := make([]any, v.Len())
		for i := range out {
			out[i] = norm(v.Index(i))
		}
		return out
	case reflect.Map:
		out := map[string]any{}
		for _, k := range v.MapKeys() {
			out[fmt.Sprint(k.Interface())] = norm(v.MapIndex(k))
		}
		return out
	case reflect.Struct:
		out := map[string]any{}
		for i := 0; i < v.NumField(); i++ {
			out[v.Type().Field(i).Name] = norm(v.Field(i))
		}
		return out
	}
	return v.Interface()
}

// unstable reports whether v contains a string the literal re-parsing of the value path does not
// preserve, or an integer that does not survive float64 (class C17/value-path-reparse).
func unstable(v reflect.Value) bool {
	switch v.Kind() {
	case reflect.Pointer:
		return !v.IsNil() && unstable(v.Elem())
	case reflect.Slice:
		for i := 0; i < v.Len(); i++ {
			if unstable(v.Index(i)) {
				return true
			}
		}
	case reflect.Map:
		for _, k := range v.MapKeys() {
			if unstable(v.MapIndex(k)) {
				return true
			}
		}
	case reflect.Struct:
		for i := 0; i < v.NumField(); i++ {
			if unstable(v.Field(i)) {
				return true
			}
		}
	case reflect.String:
		return !plainString(v.String())
	case reflect.Int, reflect.Int64:
		n := v.Int()
		return n > 1<<53 || n < -(1<<53)
	case reflect.Uint, reflect.Uint64:
		return v.Uint() > 1<<53
	case reflect.Float64:
		f := v.Float()
		s := strconv.FormatFloat(f, 'g', -1, 64)
		return strings.ContainsAny(s, "eE") || math.Abs(f) >= 1<<53
	}
	return false
}

// plainString: letters first, then letters / digits / a few separators; not a boolean word.
func plainString(s string) bool {
	if s == "" {
		return false
	}
	l := strings.ToLower(s)
	if l == "true" || l == "false" {
		return false
	}
	for i, r := range s {
		isLetter := (r >= 'a' && r <= 'z') || (r >= 'A' && r <= 'Z')
		if i == 0 && !isLetter {
			return false
		}
		if !(isLetter || (r >= '0' && r <= '9') || r == '.' || r == '_' || r == '-') {
			return false
		}
	}
	return !strings.HasPrefix(s, "map")
}

func nontrivial(v reflect.Value) bool {
	switch v.Kind() {
	case reflect.Pointer, reflect.Slice, reflect.Map, reflect.Struct:
		return true
	case reflect.String:
		return !plainString(v.String())
	case reflect.Int, reflect.Int64, reflect.Int32:
		n := v.Int()
		return n > 1<<31 || n < -(1<<31)
	case reflect.Uint, reflect.Uint64:
		return v.Uint() > 1<<31
	case reflect.Float64, reflect.Float32:
		return v.Float() != math.Trunc(v.Float())
	}
	return false
}

func TestRoundTrip(t *testing.T) {
	kit.Rec.Rule(rule)
	knownReparse := kit.IsKnown("value-path-reparse")
	knownAnyNum := kit.IsKnown("any-number-kind")
	rapid.Check(t, func(t *rapid.T) {
		k := rapid.SampledFrom(kinds).Draw(t, "kind")
		v := k.Gen(t)
		rv := reflect.ValueOf(v)
		typ := rv.Type()
		doc, err := yaml.Marshal(map[string]any{"c17": map[string]any{"key": v, "other": 1}})
		if err != nil {
			t.Skip("yaml")
		}
		// the same document as JSON, read through the JSON binder (numbers arrive as float64 there: integers beyond
		// 2^53 and numbers in any-typed positions are left to the YAML runs)
		format := "yaml"
		if rapid.IntRange(0, 3).Draw(t, "json") == 0 && jsonSafe(rv) {
			if jd, jerr := json.Marshal(map[string]any{"c17": map[string]any{"key": jsonView(rv), "other": 1}}); jerr == nil {
				doc, format = jd, "json"
			}
		}
		fields := []reflect.StructField{
			{Name: "P", Type: typ, Tag: `prefix:"c17.key"`},
			{Name: "V", Type: typ, Tag: `value:"${c17.key}"`},
			{Name: "Q", Type: typ, Tag: `prop:"c17.key"`},
		}
		// a placeholder WITH a default: the default covers an absent key only, never a configured zero value
		if d, ok := defaultFor[k.Name]; ok {
			fields = append(fields, reflect.StructField{Name: "D", Type: typ, Tag: reflect.StructTag(`value:"${c17.key:` + d + `}"`)},
				reflect.StructField{Name: "E", Type: typ, Tag: reflect.StructTag(`prop:"c17.key:` + d + `"`)})
		}
		// an optional value field that resolves to nothing, declared BEFORE the twins, must not disturb them
		lead := 0
		if rapid.IntRange(0, 2).Draw(t, "leadingoptional") == 0 {
			fields = append([]reflect.StructField{{Name: "O", Type: reflect.TypeOf(""), Tag: `value:"${c17.absent:},required=false"`}}, fields...)
			lead = 1
		}
		// neighbouring fields of other tag kinds in front of and behind the twins must not matter either
		dc := kit.DrawDecoys(t)
		ntw := len(fields) - lead
		fields = dc.Around(fields...)
		lead += dc.Lead()
		obj := reflect.New(reflect.StructOf(fields))
		// now and then the fields already hold defaults that the configuration must replace, not merge into
		prefilled := rapid.IntRange(0, 2).Draw(t, "prefill") == 0
		if prefilled {
			if pv, ok := prefillFor(typ); ok {
				for i := lead; i < lead+ntw; i++ {
					obj.Elem().Field(i).Set(pv())
				}
			} else {
				prefilled = false
			}
		}
		ops := []app.SettingOption{app.SetComponents(obj.Interface()), app.SetConfigLoader(loader.NewRawLoader(doc))}
		if format == "json" {
			ops = append(ops, app.SetConfigBinder(binder.NewViperBinder("json")))
		}
		out := kit.RunApp(ops...)
		desc := fmt.Sprintf("%s %#v%s", k.Name, norm(rv), dc)
		if format == "json" {
			desc += " (json)"
		}
		ev := rv
		for ev.Kind() == reflect.Pointer && !ev.IsNil() {
			ev = ev.Elem()
		}
		emptyish := (ev.Kind() == reflect.Slice || ev.Kind() == reflect.Map) && ev.Len() == 0 || (ev.Kind() == reflect.String && ev.Len() == 0)
		excluded := knownReparse && unstable(rv)
		if out.Panic != nil {
			t.Fatalf("C17: panic %v\n%s\nyaml:\n%s", out.Panic, desc, doc)
		}
		if emptyish {
			// an empty string / list / map counts as "absent" for placeholders and "required" fails: only the prefix twin is defined
			kit.Rec.Case(desc, false, "emptyish")
			return
		}
		if out.Err != nil {
			if excluded {
				kit.Rec.Exclude("value-path-reparse")
				kit.Rec.Case(desc, false, "excluded-known")
				return
			}
			t.Fatalf("C17: binding %s failed: %v\nyaml:\n%s", desc, out, doc)
		}
		p, vv, q := obj.Elem().Field(lead+0), obj.Elem().Field(lead+1), obj.Elem().Field(lead+2)
		if !reflect.DeepEqual(norm(p), norm(rv)) {
			t.Fatalf("C17: prefix binding changed the value: configured %#v, field holds %#v\nyaml:\n%s", norm(rv), norm(p), doc)
		}
		if excluded {
			kit.Rec.Exclude("value-path-reparse")
			kit.Rec.Case(desc, false, "excluded-known")
			return
		}
		if knownAnyNum && hasAnyNumber(rv) {
			// excluded by construction: only the numeric kind inside any-typed positions is left out of the comparison
			kit.Rec.Exclude("any-number-kind")
			looseAnyNumbers = true
			defer func() { looseAnyNumbers = false }()
		}
		if !reflect.DeepEqual(norm(vv), norm(p)) {
			t.Fatalf("C17: value:\"${k}\" binds %#v where prefix:\"k\" binds %#v (%s)\nyaml:\n%s", norm(vv), norm(p), k.Name, doc)
		}
		if !reflect.DeepEqual(norm(q), norm(p)) {
			t.Fatalf("C17: prop:\"k\" binds %#v where prefix:\"k\" binds %#v (%s)\nyaml:\n%s", norm(q), norm(p), k.Name, doc)
		}
		if err := dc.Check(obj); err != nil {
			t.Fatalf("C17: %v (%s)\nyaml:\n%s", err, desc, doc)
		}
		for i := lead + 3; i < lead+ntw; i++ {
			if !reflect.DeepEqual(norm(obj.Elem().Field(i)), norm(p)) {
				t.Fatalf("C17: %s binds %#v where prefix:\"k\" binds %#v: the key is configured, its default must not apply (%s)\nyaml:\n%s", obj.Elem().Type().Field(i).Tag, norm(obj.Elem().Field(i)), norm(p), k.Name, doc)
			}
		}
		labels := append([]string{"kind/" + k.Name, "format/" + format}, dc.Labels()...)
		if prefilled {
			labels = append(labels, "prefilled-fields")
		}
		if rv.IsZero() {
			labels = append(labels, "configured-zero-value")
		}
		kit.Rec.Case(desc, nontrivial(rv) || prefilled || rv.IsZero(), labels...)
	})
}

// jsonSafe: the value survives encoding/json + a float64 number model (no integer beyond 2^53, no number in an
// any-typed position, no struct - their yaml tags mean nothing to encoding/json).
func jsonSafe(v reflect.Value) bool {
	switch v.Kind() {
	case reflect.Int, reflect.Int8, reflect.Int16, reflect.Int32, reflect.Int64:
		return v.Int() > -(1<<53) && v.Int() < 1<<53
	case reflect.Uint, reflect.Uint8, reflect.Uint16, reflect.Uint32, reflect.Uint64:
		return v.Uint() < 1<<53
	case reflect.Float32, reflect.Float64:
		f := v.Float()
		return f == math.Trunc(f) && math.Abs(f) < 1<<53 || math.Abs(f) < 1e15 && math.Abs(f) > 1e-6
	case reflect.Bool, reflect.String:
		return true
	case reflect.Pointer:
		return !v.IsNil() && jsonSafe(v.Elem())
	case reflect.Slice:
		for i := 0; i < v.Len(); i++ {
			if !jsonSafe(v.Index(i)) {
				return false
			}
		}
		return v.Len() > 0
	case reflect.Map:
		if v.Type().Elem().Kind() == reflect.Interface {
			return false
		}
		for _, k := range v.MapKeys() {
			if !jsonSafe(v.MapIndex(k)) {
				return false
			}
		}
		return v.Len() > 0
	}
	return false
}

func jsonView(v reflect.Value) any { return v.Interface() }

var defaultFor = map[string]string{"int": "3", "int8": "3", "int32": "3", "int64": "3", "uint": "3", "uint8": "3", "uint64": "3", "float64": "0.75", "float32": "0.75", "bool": "true", "string": "dflt"}

// prefillFor: a constructor for "already holds something bigger" values of the type.
func prefillFor(t reflect.Type) (func() reflect.Value, bool) {
	switch t.Kind() {
	case reflect.Slice:
		return func() reflect.Value {
			s := reflect.MakeSlice(t, 6, 6)
			for i := 0; i < 6; i++ {
				fill(s.Index(i))
			}
			return s
		}, true
	case reflect.Map:
		if t.Key().Kind() != reflect.String {
			return nil, false
		}
		return func() reflect.Value {
			m := reflect.MakeMap(t)
			for _, k := range []string{"zone", "tier", "zzz"} {
				e := reflect.New(t.Elem()).Elem()
				fill(e)
				m.SetMapIndex(reflect.ValueOf(k), e)
			}
			return m
		}, true
	case reflect.Struct:
		return func() reflect.Value { v := reflect.New(t).Elem(); fill(v); return v }, true
	case reflect.Int, reflect.Int8, reflect.Int32, reflect.Int64, reflect.Uint, reflect.Uint8, reflect.Uint64, reflect.Float32, reflect.Float64, reflect.Bool, reflect.String:
		return func() reflect.Value { v := reflect.New(t).Elem(); fill(v); return v }, true
	}
	return nil, false
}

func fill(v reflect.Value) {
	switch v.Kind() {
	case reflect.Int, reflect.Int8, reflect.Int32, reflect.Int64:
		v.SetInt(77)
	case reflect.Uint, reflect.Uint8, reflect.Uint64:
		v.SetUint(77)
	case reflect.Float32, reflect.Float64:
		v.SetFloat(7.75)
	case reflect.Bool:
		v.SetBool(true)
	case reflect.String:
		v.SetString("prefilled")
	case reflect.Slice:
		s := reflect.MakeSlice(v.Type(), 5, 5)
		for i := 0; i < 5; i++ {
			fill(s.Index(i))
		}
		v.Set(s)
	case reflect.Map:
		if v.Type().Key().Kind() == reflect.String {
			m := reflect.MakeMap(v.Type())
			e := reflect.New(v.Type().Elem()).Elem()
			fill(e)
			m.SetMapIndex(reflect.ValueOf("old"), e)
			v.Set(m)
		}
	case reflect.Struct:
		for i := 0; i < v.NumField(); i++ {
			if v.Field(i).CanSet() {
				fill(v.Field(i))
			}
		}
	}
}

// TestLiteral: a literal written in a value tag is bound as written.
func TestLiteral(t *testing.T) {
	kit.Rec.Rule(rule)
	knownReparse := kit.IsKnown("value-path-reparse")
	rapid.Check(t, func(t *rapid.T) {
		var typ reflect.Type
		var lit string
		var want any
		switch rapid.IntRange(0, 4).Draw(t, "lk") {
		case 0:
			n := rapid.OneOf(rapid.Int64(), rapid.Int64Range(-1000, 1000)).Draw(t, "n")
			typ, lit, want = reflect.TypeOf(int64(0)), strconv.FormatInt(n, 10), n
		case 1:
			f := float64(rapid.IntRange(-4000, 4000).Draw(t, "f")) / 16
			typ, lit, want = reflect.TypeOf(float64(0)), strconv.FormatFloat(f, 'f', -1, 64), f
		case 2:
			b := rapid.Bool().Draw(t, "b")
			typ, lit, want = reflect.TypeOf(false), strconv.FormatBool(b), b
		default:
			s := strGen.Filter(func(s string) bool {
				// the tag grammar itself: no top-level comma, no placeholder / expression delimiters, not empty
				return s != "" && !strings.ContainsAny(s, ",${}#") && strings.TrimSpace(s) != ""
			}).Draw(t, "s")
			typ, lit, want = reflect.TypeOf(""), s, s
		}
		obj := reflect.New(reflect.StructOf([]reflect.StructField{{Name: "L", Type: typ, Tag: reflect.StructTag(`value:` + strconv.Quote(lit))}}))
		out := kit.RunApp(app.SetComponents(obj.Interface()))
		desc := fmt.Sprintf("literal %s value:%q", typ, lit)
		excluded := knownReparse && unstable(reflect.ValueOf(want))
		if out.Panic != nil {
			t.Fatalf("C17: panic %v\n%s", out.Panic, desc)
		}
		got := obj.Elem().Field(0).Interface()
		if out.Err != nil || !reflect.DeepEqual(got, want) {
			if excluded {
				kit.Rec.Exclude("value-path-reparse")
				kit.Rec.Case(desc, false, "excluded-known")
				return
			}
			t.Fatalf("C17: literal %s bound as %#v (err %v), written %#v", desc, got, out.Err, want)
		}
		kit.Rec.Case(desc, nontrivial(reflect.ValueOf(want)), "literal/"+typ.String())
	})
}

// convertExpected: the obvious conversion of a configured scalar to another scalar kind.
func convertExpected(v any, typ reflect.Type) any {
	var f float64
	var s string
	switch x := v.(type) {
	case int:
		f, s = float64(x), strconv.Itoa(x)
	case float64:
		f, s = x, strconv.FormatFloat(x, 'f', -1, 64)
	case string:
		f, _ = strconv.ParseFloat(x, 64)
		s = x
	}
	out := reflect.New(typ).Elem()
	switch typ.Kind() {
	case reflect.String:
		out.SetString(s)
	case reflect.Float64, reflect.Float32:
		out.SetFloat(f)
	case reflect.Int, reflect.Int64, reflect.Int16:
		if n, ok := v.(int); ok {
			out.SetInt(int64(n))
		} else {
			out.SetInt(int64(f))
		}
	case reflect.Uint:
		out.SetUint(uint64(v.(int)))
	}
	return out.Interface()
}

// TestCrossType: the configured value has one scalar kind, the fields another compatible one
// (int -> float / string / narrower int, float -> string / int, numeric string -> int / float).
// The prefix-bound twin is the reference: the value / prop twins must agree with it.
func TestCrossType(t *testing.T) {
	kit.Rec.Rule(rule)
	rapid.Check(t, func(t *rapid.T) {
		var v any
		var targets []reflect.Type
		tF64, tF32, tStr, tInt, tI64, tI16, tU := reflect.TypeOf(float64(0)), reflect.TypeOf(float32(0)), reflect.TypeOf(""), reflect.TypeOf(0), reflect.TypeOf(int64(0)), reflect.TypeOf(int16(0)), reflect.TypeOf(uint(0))
		switch rapid.IntRange(0, 2).Draw(t, "src") {
		case 0:
			n := rapid.OneOf(rapid.IntRange(-30000, 30000), rapid.IntRange(0, 1<<40), rapid.SampledFrom([]int{0, 1, 1000000, 123456789, 1 << 53})).Draw(t, "n")
			v = n
			targets = []reflect.Type{tF64, tStr, tI64}
			if n >= 0 {
				targets = append(targets, tU)
			}
			if n >= -32768 && n <= 32767 {
				targets = append(targets, tI16)
			}
		case 1:
			f := rapid.OneOf(
				rapid.SampledFrom([]float64{0.5, 1500000.5, 1e6, 2e6, 123456789, 1e21, 0.00001, 1e-7, 3}),
				rapid.Float64Range(-1e9, 1e9),
			).Draw(t, "f")
			if f == 0 {
				f = 0 // no negative zero: YAML reads "-0" back as the integer 0
			}
			v = f
			targets = []reflect.Type{tF64, tStr}
			if f == math.Trunc(f) && math.Abs(f) < 1<<53 {
				targets = append(targets, tInt, tI64)
			}
			_ = tF32
		default:
			s := rapid.SampledFrom([]string{"42", "7", "1000000", "0", "3.5", "1500000.5", "-12"}).Draw(t, "s")
			v = s
			targets = []reflect.Type{tF64}
			if !strings.Contains(s, ".") {
				targets = append(targets, tInt, tI64)
			}
		}
		typ := rapid.SampledFrom(targets).Draw(t, "target")
		expected := convertExpected(v, typ)
		doc, _ := yaml.Marshal(map[string]any{"c17": map[string]any{"key": v, "other": 1}})
		obj := reflect.New(reflect.StructOf([]reflect.StructField{
			{Name: "P", Type: typ, Tag: `prefix:"c17.key"`},
			{Name: "V", Type: typ, Tag: `value:"${c17.key}"`},
			{Name: "Q", Type: typ, Tag: `prop:"c17.key"`},
			{Name: "W", Type: typ, Tag: `value:"${c17.absent:${c17.key}}"`},
		}))
		ref := reflect.New(reflect.StructOf([]reflect.StructField{{Name: "P", Type: typ, Tag: `prefix:"c17.key"`}}))
		desc := fmt.Sprintf("cross %T %#v -> %s", v, v, typ)
		// the reference alone first: if even prefix binding refuses the conversion the case is out of scope
		if out := kit.RunApp(app.SetComponents(ref.Interface()), app.SetConfigLoader(loader.NewRawLoader(doc))); !out.OK() {
			t.Fatalf("C17: prefix binding refuses to convert %s: %v", desc, out)
		}
		if got := ref.Elem().Field(0).Interface(); !reflect.DeepEqual(got, expected) {
			t.Fatalf("C17: %s: prefix binding gives %#v, the configured value converted to the field's type is %#v", desc, got, expected)
		}
		out := kit.RunApp(app.SetComponents(obj.Interface()), app.SetConfigLoader(loader.NewRawLoader(doc)))
		if out.Panic != nil {
			t.Fatalf("C17: panic %v\n%s", out.Panic, desc)
		}
		if out.Err != nil {
			t.Fatalf("C17: prefix:\"k\" binds %s (= %#v) but binding the same key through a value placeholder / prop fails: %v", desc, ref.Elem().Field(0).Interface(), out)
		}
		p := obj.Elem().Field(0).Interface()
		for i := 1; i < 4; i++ {
			if got := obj.Elem().Field(i).Interface(); !reflect.DeepEqual(got, p) {
				t.Fatalf("C17: %s: prefix:\"k\" binds %#v, %s binds %#v", desc, p, obj.Elem().Type().Field(i).Tag, got)
			}
		}
		kit.Rec.Case(desc, true, "cross/"+fmt.Sprintf("%T->%s", v, typ))
	})
}

// hasAnyNumber: a number sits in an interface-typed position somewhere inside v.
func hasAnyNumber(v reflect.Value) bool {
	switch v.Kind() {
	case reflect.Interface:
		if v.IsNil() {
			return false
		}
		switch v.Elem().Kind() {
		case reflect.Int, reflect.Int64, reflect.Int32, reflect.Uint, reflect.Uint64, reflect.Float32, reflect.Float64:
			return true
		}
		return hasAnyNumber(v.Elem())
	case reflect.Pointer:
		return !v.IsNil() && hasAnyNumber(v.Elem())
	case reflect.Slice:
		for i := 0; i < v.Len(); i++ {
			if hasAnyNumber(v.Index(i)) {
				return true
			}
		}
	case reflect.Map:
		for _, k := range v.MapKeys() {
			if hasAnyNumber(v.MapIndex(k)) {
				return true
			}
		}
	case reflect.Struct:
		for i := 0; i < v.NumField(); i++ {
			if hasAnyNumber(v.Field(i)) {
				return true
			}
		}
	}
	return false
}

// TestKnownAnyNumberKind replays the fixed witness of known finding C17/any-number-kind:
// m: {n: 1} bound to map[string]any gives int 1 by prefix and float64 1 through value / prop.
func TestKnownAnyNumberKind(t *testing.T) {
	type T struct {
		P map[string]any `prefix:"c17.m"`
		V map[string]any `value:"${c17.m}"`
	}
	obj := &T{}
	out := kit.RunApp(app.SetComponents(obj), app.SetConfigLoader(loader.NewRawLoader([]byte("c17:\n  m:\n    n: 1\n"))))
	if !out.OK() {
		kit.Rec.KnownWitness("any-number-kind", false, "start failed: "+out.String())
		return
	}
	fails := fmt.Sprintf("%T", obj.P["n"]) != fmt.Sprintf("%T", obj.V["n"])
	kit.Rec.KnownWitness("any-number-kind", fails, fmt.Sprintf("prefix twin holds %T(%v), value twin holds %T(%v)", obj.P["n"], obj.P["n"], obj.V["n"], obj.V["n"]))
}

// ---- conversions the binder documents through its arguments: durations, time layouts, mapper tag ----

type Mapped struct {
	Host string `cfg:"h"`
	Port int    `cfg:"p"`
}

// Dashed: yaml names that match no Go field name - bound correctly only through the yaml tags.
type Dashed struct {
	MaxConn     int      `yaml:"max-conn"`
	IdleTimeout string   `yaml:"idle-timeout"`
	Hosts       []string `yaml:"host-list"`
}

func TestConversions(t *testing.T) {
	kit.Rec.Rule(rule)
	rapid.Check(t, func(t *rapid.T) {
		var doc string
		var fields []reflect.StructField
		var want any
		switch rapid.IntRange(0, 2).Draw(t, "conv") {
		case 0:
			d := time.Duration(rapid.IntRange(0, 100000).Draw(t, "ms")) * time.Millisecond
			doc = fmt.Sprintf("c17:\n  key: %q\n", d.String())
			typ := reflect.TypeOf(time.Duration(0))
			fields = []reflect.StructField{{Name: "P", Type: typ, Tag: `prefix:"c17.key"`}, {Name: "V", Type: typ, Tag: `value:"${c17.key}"`}, {Name: "Q", Type: typ, Tag: `prop:"c17.key"`}}
			want = d
		case 1:
			layout := rapid.SampledFrom([]string{"2006-01-02", "2006-01-02T15:04:05Z07:00"}).Draw(t, "layout")
			tm := time.Date(2000+rapid.IntRange(0, 30).Draw(t, "y"), time.Month(rapid.IntRange(1, 12).Draw(t, "m")), rapid.IntRange(1, 28).Draw(t, "d"), 0, 0, 0, 0, time.UTC)
			doc = fmt.Sprintf("c17:\n  key: %q\n", tm.Format(layout))
			typ := reflect.TypeOf(time.Time{})
			fields = []reflect.StructField{
				{Name: "P", Type: typ, Tag: reflect.StructTag(`prefix:"c17.key,timeLayout=` + layout + `"`)},
				{Name: "V", Type: typ, Tag: reflect.StructTag(`value:"${c17.key},timeLayout=` + layout + `"`)},
				{Name: "Q", Type: typ, Tag: reflect.StructTag(`prop:"c17.key,timeLayout=` + layout + `"`)},
			}
			want = tm
		default:
			m := Mapped{Host: rapid.StringMatching(`[a-z]{1,6}`).Draw(t, "h"), Port: rapid.IntRange(1, 65535).Draw(t, "p")}
			doc = fmt.Sprintf("c17:\n  key:\n    h: %s\n    p: %d\n", m.Host, m.Port)
			typ := reflect.TypeOf(Mapped{})
			fields = []reflect.StructField{
				{Name: "P", Type: typ, Tag: `prefix:"c17.key,mapper=cfg"`},
				{Name: "V", Type: typ, Tag: `value:"${c17.key},mapper=cfg"`},
				{Name: "Q", Type: typ, Tag: `prop:"c17.key,mapper=cfg"`},
			}
			want = m
		}
		// an argument of one field (mapper=, timeLayout=) is that field's business only: ordinary structs bound before and
		// after it - in this component, in a second one, in later containers of this process - still go by their yaml tags
		dashed := Dashed{MaxConn: rapid.IntRange(1, 99).Draw(t, "maxconn"), IdleTimeout: "90s", Hosts: []string{"a.local", "b.local"}}
		doc += fmt.Sprintf("  dashed:\n    max-conn: %d\n    idle-timeout: 90s\n    host-list: [a.local, b.local]\n", dashed.MaxConn)
		dt := reflect.TypeOf(Dashed{})
		fields = append(append([]reflect.StructField{{Name: "D0", Type: dt, Tag: `prefix:"c17.dashed"`}}, fields...),
			reflect.StructField{Name: "D1", Type: dt, Tag: `prefix:"c17.dashed"`}, reflect.StructField{Name: "D2", Type: dt, Tag: `value:"${c17.dashed}"`})
		obj := reflect.New(reflect.StructOf(fields))
		second := &struct {
			D3 Dashed `prefix:"c17.dashed"`
		}{}
		out := kit.RunApp(app.SetComponents(obj.Interface(), second), app.SetConfigLoader(loader.NewRawLoader([]byte(doc))))
		desc := fmt.Sprintf("conversion %T %v doc=%q", want, want, doc)
		if !out.OK() {
			t.Fatalf("C17: %s failed: %v", desc, out)
		}
		for _, fn := range []string{"D0", "D1", "D2"} {
			if got := obj.Elem().FieldByName(fn).Interface(); !reflect.DeepEqual(got, dashed) {
				t.Fatalf("C17: %s: the ordinary struct field %s next to the converted ones holds %+v, want %+v", desc, fn, got, dashed)
			}
		}
		if !reflect.DeepEqual(second.D3, dashed) {
			t.Fatalf("C17: %s: the ordinary struct field of a second component holds %+v, want %+v", desc, second.D3, dashed)
		}
		for i := 1; i < 4; i++ {
			got := obj.Elem().Field(i).Interface()
			eq := reflect.DeepEqual(got, want)
			if tm, ok := want.(time.Time); ok {
				eq = got.(time.Time).Equal(tm)
			}
			if !eq {
				t.Fatalf("C17: %s: field %s holds %#v", desc, obj.Elem().Type().Field(i).Tag, got)
			}
		}
		kit.Rec.Case(desc, true, fmt.Sprintf("conversion/%T", want))
	})
}

// ---- structs against configuration subtrees that do not match one to one, and values that cannot be converted ----

type Emb struct {
	X int `yaml:"x"`
}
type WithEmb struct {
	Emb
	Y int `yaml:"y"`
}
type Partial struct {
	A int    `yaml:"a"`
	B string `yaml:"b"`
	C []int  `yaml:"c"`
}

// ByName has no yaml tags: its members are matched by their names.
type ByName struct {
	Host string
	Port int
}

// CPProps names its own prefix (definition.ConfigurationProperties): an untagged field of this type is bound by it.
type CPProps struct {
	A int    `yaml:"a"`
	B string `yaml:"b"`
	C []int  `yaml:"c"`
}

func (*CPProps) Prefix() string { return "c17.key" }

type CPHolder struct {
	Before string `value:"lit"`
	D      *CPProps
	After  int `value:"4"`
	// an explicit tag wins over what the field's type or a second tag would say: the prefix written in the tag, not
	// the type's Prefix(); the value tag, not the prop shorthand next to it
	Alt      *CPProps `prefix:"c17.alt"`
	Greeting string   `value:"hello" prop:"c17.alt.b"`
}

// Sect states a prefix that depends on the instance (named sections): an untagged field that already holds an
// instance when the start begins is bound from the section THAT instance names.
type Sect struct {
	section string
	URL     string `yaml:"url"`
	Pool    int    `yaml:"pool"`
}

func (s *Sect) Prefix() string {
	if s == nil || s.section == "" {
		return "c17.sect.default"
	}
	return "c17.sect." + s.section
}

type SectHolder struct {
	Orders *Sect
	Users  *Sect
	Def    *Sect
}

// CfgPP is a (pass-through, non-lazy) component post-processor that has configuration points of its own
type CfgPP struct {
	N int    `prefix:"c17.alt.a"`
	S string `value:"${c17.alt.b:dflt}"`
	Q int    `prop:"c17.alt.a:5"`
	O *Inner `prefix:"c17.alt.none,required=false"`
}

func (*CfgPP) PostProcessBeforeInitialization(c any, n string) (any, error) { return c, nil }
func (*CfgPP) PostProcessAfterInitialization(c any, n string) (any, error)  { return c, nil }

// configuration points declared in an embedded struct whose type name is unexported (its exported fields are
// settable all the same), directly and beneath an exported embedded wrapper
type cfgBase struct {
	Host string `value:"${c17.emb.host}"`
	Port int    `prefix:"c17.emb.port"`
	Lit  string `value:"007"`
	Q    int    `prop:"c17.emb.port"`
}
type ExpWrap struct{ cfgBase }
type EmbHolder struct {
	cfgBase
	Own int `value:"3"`
}
type EmbHolder2 struct {
	ExpWrap
	Own int `value:"4"`
}

func TestStructShapes(t *testing.T) {
	kit.Rec.Rule(rule)
	rapid.Check(t, func(t *rapid.T) {
		a, x, y := rapid.IntRange(1, 99).Draw(t, "a"), rapid.IntRange(1, 99).Draw(t, "x"), rapid.IntRange(1, 99).Draw(t, "y")
		var doc string
		var typ reflect.Type
		var want any
		var wantCP *CPProps
		switch rapid.IntRange(0, 4).Draw(t, "shape") {
		case 4: // members without yaml tags are matched by name
			doc = fmt.Sprintf("c17:\n  key:\n    host: h%d\n    port: %d\n", a, x)
			typ, want = reflect.TypeOf(ByName{}), ByName{Host: fmt.Sprintf("h%d", a), Port: x}
		case 0: // the subtree has MORE keys than the struct: the extra ones are ignored
			doc = fmt.Sprintf("c17:\n  key:\n    a: %d\n    b: bee\n    c: [1, 2]\n    extra: 5\n    more:\n      deep: 1\n", a)
			typ, want = reflect.TypeOf(Partial{}), Partial{A: a, B: "bee", C: []int{1, 2}}
			wantCP = &CPProps{A: a, B: "bee", C: []int{1, 2}}
		case 1: // the subtree has FEWER keys: the missing fields stay zero
			doc = fmt.Sprintf("c17:\n  key:\n    a: %d\n", a)
			typ, want = reflect.TypeOf(Partial{}), Partial{A: a}
			wantCP = &CPProps{A: a}
		case 2: // an embedded struct is a nested struct under its (lower-cased) type name
			doc = fmt.Sprintf("c17:\n  key:\n    emb:\n      x: %d\n    y: %d\n", x, y)
			typ, want = reflect.TypeOf(WithEmb{}), WithEmb{Emb: Emb{X: x}, Y: y}
		default: // pointer to struct, fewer keys
			doc = fmt.Sprintf("c17:\n  key:\n    b: z%d\n", a)
			typ, want = reflect.TypeOf(&Partial{}), &Partial{B: fmt.Sprintf("z%d", a)}
		}
		obj := reflect.New(reflect.StructOf([]reflect.StructField{
			{Name: "P", Type: typ, Tag: `prefix:"c17.key"`},
			{Name: "V", Type: typ, Tag: `value:"${c17.key}"`},
			{Name: "Q", Type: typ, Tag: `prop:"c17.key"`},
		}))
		cp := &CPHolder{}
		port := rapid.IntRange(1, 65535).Draw(t, "embport")
		doc += fmt.Sprintf("  emb:\n    host: 0.0.0.0\n    port: %d\n", port)
		altA := rapid.IntRange(100, 999).Draw(t, "alta")
		doc += fmt.Sprintf("  alt:\n    a: %d\n    b: altbee\n", altA)
		e1, e2 := &EmbHolder{}, &EmbHolder2{}
		cpp := &CfgPP{}
		pools := [3]int{rapid.IntRange(1, 9).Draw(t, "pool0"), rapid.IntRange(10, 19).Draw(t, "pool1"), rapid.IntRange(20, 29).Draw(t, "pool2")}
		doc += fmt.Sprintf("  sect:\n    default:\n      url: d.example.org\n      pool: %d\n    orders:\n      url: o.example.org\n      pool: %d\n    users:\n      url: u.example.org\n      pool: %d\n", pools[0], pools[1], pools[2])
		sh := &SectHolder{Orders: &Sect{section: "orders"}, Users: &Sect{section: "users"}}
		out := kit.RunApp(app.SetComponents(obj.Interface(), cp, e1, e2, cpp, sh), app.SetConfigLoader(loader.NewRawLoader([]byte(doc))))
		desc := fmt.Sprintf("struct-shape %s doc=%q", typ, doc)
		if !out.OK() {
			t.Fatalf("C17: %s failed: %v", desc, out)
		}
		if wantCP != nil && !reflect.DeepEqual(cp.D, wantCP) {
			t.Fatalf("C17: %s: the untagged field whose type states Prefix()=\"c17.key\" holds %#v, want %#v", desc, cp.D, wantCP)
		}
		wantBase := cfgBase{Host: "0.0.0.0", Port: port, Lit: "007", Q: port}
		if out.OK() && (e1.cfgBase != wantBase || e1.Own != 3 || e2.cfgBase != wantBase || e2.Own != 4) {
			t.Fatalf("C17: %s: configuration points inside an embedded struct with an unexported type name hold %+v (own %d) / %+v (own %d), want %+v (3 / 4)", desc, e1.cfgBase, e1.Own, e2.cfgBase, e2.Own, wantBase)
		}
		if out.OK() {
			if cp.Alt == nil || cp.Alt.A != altA || cp.Alt.B != "altbee" {
				t.Fatalf("C17: %s: field tagged prefix:\"c17.alt\" (its type also states Prefix()=\"c17.key\") holds %+v, want the c17.alt subtree {A:%d B:altbee}", desc, cp.Alt, altA)
			}
			if cp.Greeting != "hello" {
				t.Fatalf("C17: %s: field tagged value:\"hello\" (and prop:\"c17.alt.b\") holds %q, the literal is \"hello\"", desc, cp.Greeting)
			}
			if cpp.N != altA || cpp.S != "altbee" || cpp.Q != altA || cpp.O != nil {
				t.Fatalf("C17: %s: a component post-processor's own configuration points hold N=%d S=%q Q=%d O=%v, configured are %d / altbee / %d / nothing", desc, cpp.N, cpp.S, cpp.Q, cpp.O, altA, altA)
			}
		}
		if out.OK() {
			for _, x := range []struct {
				what string
				got  *Sect
				url  string
				pool int
			}{{"orders", sh.Orders, "o.example.org", pools[1]}, {"users", sh.Users, "u.example.org", pools[2]}, {"default (the field was nil)", sh.Def, "d.example.org", pools[0]}} {
				if x.got == nil || x.got.URL != x.url || x.got.Pool != x.pool {
					t.Fatalf("C17: %s: the untagged field holding the instance that names section %s is bound to %+v, that section is configured as {url:%s pool:%d}", desc, x.what, x.got, x.url, x.pool)
				}
			}
		}
		if cp.Before != "lit" || cp.After != 4 {
			t.Fatalf("C17: %s: the fields around the Prefix()-bound one hold %q / %d, want \"lit\" / 4", desc, cp.Before, cp.After)
		}
		for i := 0; i < 3; i++ {
			if got := obj.Elem().Field(i).Interface(); !reflect.DeepEqual(got, want) {
				t.Fatalf("C17: %s: field %s holds %#v, want %#v", desc, obj.Elem().Type().Field(i).Tag, got, want)
			}
		}
		kit.Rec.Case(desc, true, "struct-shape")
	})
}

// TestInconvertible: a configured value that cannot be converted to the field's type is rejected with an
// error on every path - never bound as something else, never silently skipped, never a panic.
func TestInconvertible(t *testing.T) {
	kit.Rec.Rule(rule)
	rapid.Check(t, func(t *rapid.T) {
		bad := rapid.SampledFrom([]string{"abc", "12x", "one", "1.2.3", "x"}).Draw(t, "bad")
		typ := rapid.SampledFrom([]reflect.Type{reflect.TypeOf(0), reflect.TypeOf(int64(0)), reflect.TypeOf(uint8(0)), reflect.TypeOf(float64(0)), reflect.TypeOf([]int(nil)), reflect.TypeOf(Partial{})}).Draw(t, "typ")
		via := rapid.SampledFrom([]string{"prefix", "value", "prop"}).Draw(t, "via")
		tag := map[string]string{"prefix": "c17.key", "value": "${c17.key}", "prop": "c17.key"}[via]
		obj := reflect.New(reflect.StructOf([]reflect.StructField{{Name: "F", Type: typ, Tag: reflect.StructTag(via + ":" + strconv.Quote(tag))}}))
		doc := fmt.Sprintf("c17:\n  key: %s\n", bad)
		out := kit.RunApp(app.SetComponents(obj.Interface()), app.SetConfigLoader(loader.NewRawLoader([]byte(doc))))
		desc := fmt.Sprintf("inconvertible %q -> %s via %s", bad, typ, via)
		if out.Panic != nil {
			t.Fatalf("C17: %s panicked: %v", desc, out.Panic)
		}
		if out.Err == nil {
			t.Fatalf("C17: %s: start-up succeeded, the field holds %#v", desc, obj.Elem().Field(0).Interface())
		}
		kit.Rec.Case(desc, true, "inconvertible")
	})
}

// ---------------------------------------------------------------------------
// Histories: bindings made earlier in the life of one container must not colour later ones.
//  - a component that edits its own prefix-bound map / list in place (fill in defaults, sort) must not change what a
//    component created later - or Configure.Get - sees under the same key;
//  - a lazily created component whose first creation fails after its fields were bound is bound afresh, against the
//    configuration as it is then, when it is requested again.

type HMutator struct {
	M      map[string]any `prefix:"c17h.m"`
	L      []any          `prefix:"c17h.l"`
	SeenM  map[string]any
	SeenL  []any
	Mutate bool
}

func (m *HMutator) Naming() string { return "c17h-a-mutator" }
func (m *HMutator) Init() error {
	m.SeenM = map[string]any{}
	for k, v := range m.M {
		m.SeenM[k] = v
	}
	m.SeenL = append([]any(nil), m.L...)
	if !m.Mutate {
		return nil
	}
	for k := range m.M {
		m.M[k] = "OVERRIDDEN"
	}
	if m.M != nil {
		m.M["added"] = "x"
	}
	for i, j := 0, len(m.L)-1; i < j; i, j = i+1, j-1 {
		m.L[i], m.L[j] = m.L[j], m.L[i]
	}
	return nil
}

type HReader struct {
	M  map[string]any    `prefix:"c17h.m"`
	MS map[string]string `prefix:"c17h.m"`
	MV map[string]string `value:"${c17h.m}"`
	L  []any             `prefix:"c17h.l"`
	LS []string          `prefix:"c17h.l"`
	LV []string          `value:"${c17h.l}"`
	LQ []string          `prop:"c17h.l"`
	W  struct {
		M map[string]string `yaml:"m"`
		L []string          `yaml:"l"`
	} `prefix:"c17h"`
}

func (m *HReader) Naming() string { return "c17h-b-reader" }

type HLazy struct {
	P    string `prefix:"c17h.key"`
	V    string `value:"${c17h.key}"`
	Q    string `prop:"c17h.key"`
	NP   int    `prefix:"c17h.n"`
	NV   int    `value:"${c17h.n}"`
	ND   int    `value:"${c17h.n:5}"`
	Z    string `prefix:"c17h.zones.${c17h.zone}.host"`
	ZV   string `value:"${c17h.zones.${c17h.zone}.host}"`
	Gate string `value:"${c17h.gate:closed}"`
	W    struct {
		Key string `yaml:"key"`
		N   int    `yaml:"n"`
	} `prefix:"c17h"`
	Runs int
}

func (l *HLazy) Naming() string { return "c17h-lazy" }
func (l *HLazy) LazyInit()      {}
func (l *HLazy) Init() error {
	l.Runs++
	if l.Gate != "open" {
		return fmt.Errorf("gate is %q", l.Gate)
	}
	return nil
}

func TestRebindHistory(t *testing.T) {
	kit.Rec.Rule(rule)
	rapid.Check(t, func(t *rapid.T) {
		word := rapid.StringMatching(`[a-z]{1,5}`)
		m := rapid.MapOfN(rapid.StringMatching(`[a-z]{1,3}`), word, 1, 3).Draw(t, "m")
		l := rapid.SliceOfNDistinct(word, 2, 4, rapid.ID[string]).Draw(t, "l")
		cur := map[string]any{"key": word.Draw(t, "key"), "n": rapid.IntRange(1, 99).Draw(t, "n"), "zone": rapid.SampledFrom([]string{"east", "west"}).Draw(t, "zone")}
		zones := map[string]any{"east": map[string]any{"host": "east.example.org"}, "west": map[string]any{"host": "west.example.org"}}
		doc, err := yaml.Marshal(map[string]any{"c17h": map[string]any{"m": m, "l": l, "key": cur["key"], "n": cur["n"], "zone": cur["zone"], "zones": zones}})
		if err != nil {
			t.Skip("yaml")
		}
		// reference for what "the configuration now gives": a binder of its own that receives the same document and
		// the same Set calls but is never read in between (reads must not freeze anything)
		ref := binder.NewViperBinder("yaml")
		if err := ref.SetConfig(doc); err != nil {
			t.Skip("yaml")
		}
		mut := &HMutator{Mutate: rapid.IntRange(0, 3).Draw(t, "mutate") != 0}
		rd := &HReader{}
		lz := &HLazy{}
		out := kit.RunApp(app.SetComponents(rd, mut, lz), app.SetConfigLoader(loader.NewRawLoader(doc)))
		if !out.OK() {
			t.Fatalf("C17: start failed: %v\nyaml:\n%s", out, doc)
		}
		wantM := map[string]any{}
		for k, v := range m {
			wantM[k] = v
		}
		wantL := make([]any, len(l))
		for i := range l {
			wantL[i] = l[i]
		}
		ctx := fmt.Sprintf("(an earlier component edited its own copy in place: %v)\nyaml:\n%s", mut.Mutate, doc)
		eq := func(what string, got, want any) {
			if !reflect.DeepEqual(got, want) {
				t.Fatalf("C17: %s holds %#v, configured is %#v %s", what, got, want, ctx)
			}
		}
		eq("first component's map[string]any prefix:\"c17h.m\" (at Init)", mut.SeenM, wantM)
		eq("first component's []any prefix:\"c17h.l\" (at Init)", mut.SeenL, wantL)
		eq("later component's map[string]any prefix:\"c17h.m\"", rd.M, wantM)
		eq("later component's map[string]string prefix:\"c17h.m\"", rd.MS, m)
		eq("later component's map[string]string value:\"${c17h.m}\"", rd.MV, m)
		eq("later component's []any prefix:\"c17h.l\"", rd.L, wantL)
		eq("later component's []string prefix:\"c17h.l\"", rd.LS, l)
		eq("later component's []string value:\"${c17h.l}\"", rd.LV, l)
		eq("later component's []string prop:\"c17h.l\"", rd.LQ, l)
		eq("later component's struct prefix:\"c17h\" member m", rd.W.M, m)
		eq("later component's struct prefix:\"c17h\" member l", rd.W.L, l)
		eq("Get(\"c17h.m\") after start", norm(reflect.ValueOf(out.App.Get("c17h.m"))), norm(reflect.ValueOf(wantM)))
		eq("Get(\"c17h.l\") after start", norm(reflect.ValueOf(out.App.Get("c17h.l"))), norm(reflect.ValueOf(wantL)))

		// the lazily created component: attempts until the gate is open
		var hist []string
		steps := rapid.IntRange(1, 4).Draw(t, "steps")
		created := false
		for i := 0; i < steps && !created; i++ {
			for _, k := range []string{"key", "n", "zone", "gate"} {
				if rapid.IntRange(0, 2).Draw(t, "set-"+k) != 0 {
					continue
				}
				var v any
				switch k {
				case "key":
					v = word.Draw(t, "newkey")
				case "n":
					v = rapid.IntRange(100, 199).Draw(t, "newn")
				case "zone":
					v = rapid.SampledFrom([]string{"east", "west"}).Draw(t, "newzone")
				default:
					v = rapid.SampledFrom([]string{"open", "open", "ajar"}).Draw(t, "newgate")
				}
				path := "c17h." + k
				if rapid.IntRange(0, 3).Draw(t, "spelling") == 0 {
					path = strings.ToUpper(path) // the same key as the binder sees it, spelled differently
				}
				out.App.Set(path, v)
				ref.Set(path, v)
				if got := ref.Get("c17h." + k); k != "gate" || got != nil {
					cur[k] = got
				}
				hist = append(hist, fmt.Sprintf("set %s=%v", path, v))
			}
			_, err := out.App.GetComponentByName("c17h-lazy")
			hist = append(hist, fmt.Sprintf("lookup fails=%v", err != nil))
			if cur["gate"] != "open" {
				if err == nil {
					t.Fatalf("C17: gate is %v, Init refuses, yet the lookup succeeded; history %v", cur["gate"], hist)
				}
				continue
			}
			if err != nil {
				t.Fatalf("C17: gate is open now but the lookup fails: %v; history %v", err, hist)
			}
			created = true
			host := cur["zone"].(string) + ".example.org"
			hctx := fmt.Sprintf("after history %v (attempt %d)", hist, lz.Runs)
			// the section as a whole, bound by prefix: what a binder that was never read before gives for it now
			sec, _ := ref.Get("c17h").(map[string]any)
			wantKey, wantN := "", 0
			if v, ok := sec["key"]; ok {
				wantKey = fmt.Sprint(v)
			}
			if v, ok := sec["n"].(int); ok {
				wantN = v
			}
			if lz.W.Key != wantKey || lz.W.N != wantN {
				t.Fatalf("C17: struct bound with prefix \"c17h\" holds key=%q n=%d, the configuration now gives key=%q n=%d (section: %v) %s", lz.W.Key, lz.W.N, wantKey, wantN, sec, hctx)
			}
			for _, c := range []struct {
				what      string
				got, want any
			}{
				{`prefix:"c17h.key"`, lz.P, cur["key"]}, {`value:"${c17h.key}"`, lz.V, cur["key"]}, {`prop:"c17h.key"`, lz.Q, cur["key"]},
				{`prefix:"c17h.n"`, lz.NP, cur["n"]}, {`value:"${c17h.n}"`, lz.NV, cur["n"]}, {`value:"${c17h.n:5}"`, lz.ND, cur["n"]},
				{`prefix:"c17h.zones.${c17h.zone}.host"`, lz.Z, host}, {`value:"${c17h.zones.${c17h.zone}.host}"`, lz.ZV, host},
			} {
				if !reflect.DeepEqual(c.got, c.want) {
					t.Fatalf("C17: field %s holds %#v, the configuration now gives %#v %s", c.what, c.got, c.want, hctx)
				}
			}
		}
		labels := []string{"history"}
		if mut.Mutate {
			labels = append(labels, "in-place-edit-before-later-binding")
		}
		if created && lz.Runs > 1 {
			labels = append(labels, "rebound-after-failed-creation")
		}
		kit.Rec.Case(fmt.Sprintf("m=%v l=%v mutate=%v hist=%v", m, l, mut.Mutate, hist), mut.Mutate || lz.Runs > 1, labels...)
	})
}

// ---- the process environment is not a configuration source -------------------------------------------------------

func init() {
	// variables spelled like the keys the checks of this package bind (upper case, dots as underscores), and like
	// their parent sections: whatever they hold, the configured values are what gets bound
	for _, k := range []string{"C17", "C17_KEY", "C17_OTHER", "C17H", "C17H_KEY", "C17H_BASE", "C17_DASHED", "C17_EMB_HOST", "C17A", "C17A_K"} {
		os.Setenv(k, "from-the-environment")
	}
}

// ---- values that arrive through the command-line loader ------------------------------------------------------------

// TestArgsValues: --app.config=<key>=<value> supplies <value> as written, also when it contains '=' itself (a DSN,
// a base64 token, a query string); the three binding forms agree.
func TestArgsValues(t *testing.T) {
	kit.Rec.Rule(rule)
	vals := []string{"a=b", "host=db.local port=5432 sslmode=disable", "dG9rZW4=", "c2VjcmV0", "x==", "a=1&b=2", "plain", "k=v=w", "=lead"}
	rapid.Check(t, func(t *rapid.T) {
		v := rapid.SampledFrom(vals).Draw(t, "value")
		other := rapid.SampledFrom(vals).Draw(t, "other")
		obj := &struct {
			P string `prefix:"c17a.k"`
			V string `value:"${c17a.k}"`
			Q string `prop:"c17a.k"`
			O string `prefix:"c17a.o"`
			N int    `prefix:"c17a.n"`
		}{}
		args := loader.NewArgsLoader([]string{"--app.config=c17a.k=" + v, "--other=ignored", "--app.config=c17a.o=" + other, "--app.config=c17a.n=8080"})
		saved := os.Args
		os.Args = saved[:1]
		out := kit.RunApp(app.SetComponents(obj), app.SetConfigLoader(args))
		os.Args = saved
		desc := fmt.Sprintf("args value %q / %q", v, other)
		if !out.OK() {
			t.Fatalf("C17: %s: start failed: %v", desc, out)
		}
		if obj.P != v || obj.V != v || obj.Q != v || obj.O != other || obj.N != 8080 {
			t.Fatalf("C17: %s: bound prefix=%q value=%q prop=%q other=%q n=%d", desc, obj.P, obj.V, obj.Q, obj.O, obj.N)
		}
		kit.Rec.Case(desc, strings.Contains(v, "="), "args-loader-value")
	})
}

// ---- a Configure that was initialised before the App gets it --------------------------------------------------------

// TestPreInitializedConfigure: the application reads its profile from a Configure it initialises itself, then hands
// that Configure to the App together with one more source (a file chosen by the profile). What the file configures
// reaches the fields exactly like what the first source configured.
type PreInit struct {
	Base  string   `prefix:"c17p.base"`
	BaseV string   `value:"${c17p.base}"`
	Zip   string   `prefix:"c17p.zip"`
	ZipV  string   `value:"${c17p.zip}"`
	ZipQ  string   `prop:"c17p.zip"`
	Port  int      `prefix:"c17p.port"`
	PortV int      `value:"${c17p.port}"`
	List  []string `prefix:"c17p.list"`
	ListV []string `value:"${c17p.list}"`
	Whole struct {
		Base string   `yaml:"base"`
		Zip  string   `yaml:"zip"`
		Port int      `yaml:"port"`
		List []string `yaml:"list"`
	} `prefix:"c17p"`
}

func TestPreInitializedConfigure(t *testing.T) {
	kit.Rec.Rule(rule)
	rapid.Check(t, func(t *rapid.T) {
		base := rapid.StringMatching(`[a-z]{1,6}`).Draw(t, "base")
		zip := rapid.SampledFrom([]string{"007", "00501", "1.50", "true", "x y", "0x10"}).Draw(t, "zip")
		port := rapid.IntRange(1, 65535).Draw(t, "port")
		list := rapid.SliceOfN(rapid.SampledFrom([]string{"blue", "42", "a b", "007"}), 1, 3).Draw(t, "list")
		first, _ := yaml.Marshal(map[string]any{"c17p": map[string]any{"base": base, "profile": "p1"}})
		second, _ := yaml.Marshal(map[string]any{"c17p": map[string]any{"zip": zip, "port": port, "list": list}})
		dir, err := os.MkdirTemp("", "c17p-")
		if err != nil {
			t.Skip("no temp dir")
		}
		defer os.RemoveAll(dir)
		file := filepath.Join(dir, "config-p1.yaml")
		if err := os.WriteFile(file, second, 0o644); err != nil {
			t.Skip("cannot write")
		}
		cfg := configure.NewConfigure()
		cfg.SetBinder(binder.NewViperBinder("yaml"))
		cfg.AddLoaders(loader.NewRawLoader(first))
		early := rapid.Bool().Draw(t, "early")
		if early {
			if err := cfg.Initialize(); err != nil {
				t.Fatalf("C17: Initialize: %v", err)
			}
			if got := cfg.Get("c17p.profile"); got != "p1" {
				t.Fatalf("C17: profile read before the start is %v", got)
			}
		}
		viaOption := rapid.Bool().Draw(t, "viaoption")
		c := &PreInit{}
		ops := []app.SettingOption{app.SetConfigure(cfg)}
		if viaOption {
			ops = append(ops, app.SetConfig(file))
		} else {
			cfg.AddLoaders(loader.NewFileLoader(file))
		}
		out := kit.RunApp(append(ops, app.SetComponents(c))...)
		desc := fmt.Sprintf("first source %q (initialised before the start: %v), then file %q (added through the App option: %v)", first, early, second, viaOption)
		if !out.OK() {
			t.Fatalf("C17: start failed: %v\n%s", out, desc)
		}
		for _, x := range []struct {
			what      string
			got, want any
		}{
			{`prefix:"c17p.base"`, c.Base, base}, {`value:"${c17p.base}"`, c.BaseV, base},
			{`prefix:"c17p.zip"`, c.Zip, zip}, {`value:"${c17p.zip}"`, c.ZipV, zip}, {`prop:"c17p.zip"`, c.ZipQ, zip},
			{`prefix:"c17p.port"`, c.Port, port}, {`value:"${c17p.port}"`, c.PortV, port},
			{`prefix:"c17p.list"`, c.List, list}, {`value:"${c17p.list}"`, c.ListV, list},
			{`prefix:"c17p" member base`, c.Whole.Base, base}, {`prefix:"c17p" member zip`, c.Whole.Zip, zip},
			{`prefix:"c17p" member port`, c.Whole.Port, port}, {`prefix:"c17p" member list`, c.Whole.List, list},
		} {
			if !reflect.DeepEqual(x.got, x.want) {
				t.Fatalf("C17: field %s holds %#v, configured is %#v\n%s", x.what, x.got, x.want, desc)
			}
		}
		var labels []string
		if early {
			labels = append(labels, "configure-initialised-before-the-start")
		}
		kit.Rec.Case(desc, early, labels...)
	})
}
