// Package pop builds "population" scenarios: providers from the static
// provider zoo plus consumers whose struct types are built at run time with
// reflect.StructOf (arbitrary field lists, kinds and tags).
package pop

import (
	"fmt"
	"reflect"
	"strings"

	"pgregory.net/rapid"
	altzoo "verif/harness/alt/zoo"
	"verif/harness/graph"
	"verif/harness/kit"
	"verif/harness/zoo"
)

type ProvSpec struct {
	Kind  int // index into zoo.ProviderKinds
	Alias string
	Qual  string
	Comp  string
}

func (p ProvSpec) String() string {
	s := zoo.ProviderKinds[p.Kind].Name
	var a []string
	if p.Alias != "" {
		a = append(a, "name="+p.Alias)
	}
	if zoo.ProviderKinds[p.Kind].HasQual {
		a = append(a, "q="+p.Qual)
	}
	if zoo.ProviderKinds[p.Kind].HasComp {
		a = append(a, "comp="+p.Comp)
	}
	if len(a) > 0 {
		s += "(" + strings.Join(a, ",") + ")"
	}
	return s
}

type FieldSpec struct {
	Type string // key of Types
	Tag  string // complete struct tag, e.g. `wire:",qualifier=g1"`
}

func (f FieldSpec) String() string { return f.Type + " `" + f.Tag + "`" }

type ConsSpec struct{ Fields []FieldSpec }

func (c ConsSpec) String() string {
	var s []string
	for _, f := range c.Fields {
		s = append(s, f.String())
	}
	return "{" + strings.Join(s, "; ") + "}"
}

type Scenario struct {
	Provs   []ProvSpec
	Cons    []ConsSpec
	RegPerm []int
	OrdMode int
	OrdSeed uint64
}

func (s *Scenario) Shape() string {
	var sb strings.Builder
	for i, p := range s.Provs {
		if i > 0 {
			sb.WriteString(" ")
		}
		sb.WriteString(p.String())
	}
	for _, c := range s.Cons {
		sb.WriteString(" | " + c.String())
	}
	return sb.String()
}

var ifaceOf = func(p any) reflect.Type { return reflect.TypeOf(p).Elem() }

// Types is the table of field types a consumer may declare.
var Types = map[string]reflect.Type{}

// SingleTypes / SliceTypes list the keys by shape.
var SingleTypes, SliceTypes []string

func init() {
	base := []struct {
		n string
		t reflect.Type
	}{
		{"*PA", reflect.TypeOf(&zoo.PA{})}, {"*PA2", reflect.TypeOf(&zoo.PA2{})}, {"*PB", reflect.TypeOf(&zoo.PB{})},
		{"*PC", reflect.TypeOf(&zoo.PC{})}, {"*PD", reflect.TypeOf(&zoo.PD{})}, {"*PE", reflect.TypeOf(&zoo.PE{})},
		{"*PG", reflect.TypeOf(&zoo.PG{})}, {"*PH", reflect.TypeOf(&zoo.PH{})},
		{"IA", ifaceOf((*zoo.IA)(nil))}, {"IB", ifaceOf((*zoo.IB)(nil))}, {"IAB", ifaceOf((*zoo.IAB)(nil))},
		{"IAll", ifaceOf((*zoo.IAll)(nil))}, {"IC", ifaceOf((*zoo.IC)(nil))}, {"IComp", ifaceOf((*zoo.IComp)(nil))},
		{"any", ifaceOf((*any)(nil))},
		{"IZst", ifaceOf((*zoo.IZst)(nil))},
		{"alt*PA", reflect.TypeOf(&altzoo.PA{})},
		{"altIA", ifaceOf((*altzoo.IA)(nil))},
	}
	Types["string"] = reflect.TypeOf("")
	Types["int"] = reflect.TypeOf(0)
	for _, b := range base {
		Types[b.n] = b.t
		SingleTypes = append(SingleTypes, b.n)
		Types["[]"+b.n] = reflect.SliceOf(b.t)
		SliceTypes = append(SliceTypes, "[]"+b.n)
	}
}

// ---- decoy fields: harmless fields of other kinds between the component points of a consumer --------

var decoyWant = map[string]any{}

func init() {
	for _, k := range kit.DecoyKinds() {
		Types["decoy:"+k.Kind] = k.Type
		decoyWant["decoy:"+k.Kind] = k.Want
	}
}

// DrawDecoyField draws one decoy field (see kit.Decoys).
func DrawDecoyField(t *rapid.T) FieldSpec {
	k := rapid.SampledFrom(kit.DecoyKinds()).Draw(t, "decoykind")
	return FieldSpec{Type: "decoy:" + k.Kind, Tag: k.Tag}
}

// CheckDecoys: after a successful start every decoy field of consumer object obj holds its stated value.
func CheckDecoys(obj any, c ConsSpec) error {
	v := reflect.ValueOf(obj).Elem()
	for i, f := range c.Fields {
		want, ok := decoyWant[f.Type]
		if !ok {
			continue
		}
		if got := v.Field(i + 1).Interface(); !reflect.DeepEqual(got, want) {
			return fmt.Errorf("neighbouring field F%d (%s `%s`) holds %#v, want %#v", i, f.Type, f.Tag, got, want)
		}
	}
	return nil
}

// ConsumerType builds the run-time struct type of consumer k.
func ConsumerType(k int, c ConsSpec) reflect.Type {
	fields := []reflect.StructField{{Name: fmt.Sprintf("Marker%d", k), Type: reflect.TypeOf(0)}}
	for i, f := range c.Fields {
		fields = append(fields, reflect.StructField{Name: fmt.Sprintf("F%d", i), Type: Types[f.Type], Tag: reflect.StructTag(f.Tag)})
	}
	return reflect.StructOf(fields)
}

// Instantiate creates fresh objects: providers first, then consumers.
func (s *Scenario) Instantiate() *graph.Instance {
	in := &graph.Instance{S: &graph.Scenario{RegPerm: s.RegPerm, OrdMode: s.OrdMode, OrdSeed: s.OrdSeed}, IDs: map[uintptr]int{}, Log: &zoo.Log{}}
	for _, p := range s.Provs {
		b := &zoo.Beh{ID: len(in.Comps), Alias: p.Alias, Mask: p.Qual, Comp: p.Comp, Log: in.Log}
		c := zoo.ProviderKinds[p.Kind].New(b)
		in.Comps = append(in.Comps, c)
		in.Behs = append(in.Behs, b)
		in.IDs[reflect.ValueOf(c).Pointer()] = b.ID
	}
	for k, c := range s.Cons {
		v := reflect.New(ConsumerType(k, c))
		in.IDs[v.Pointer()] = len(in.Comps)
		in.Comps = append(in.Comps, v.Interface())
		in.Behs = append(in.Behs, nil)
	}
	return in
}

// ConsumerIndex returns the position of consumer k in Instance.Comps.
func (s *Scenario) ConsumerIndex(k int) int { return len(s.Provs) + k }

// ---- generators -------------------------------------------------------------

type ProvOpts struct {
	Kinds    []int    // allowed provider kinds
	Min, Max int      // number of providers
	Quals    []string // drawn qualifier values
	Comps    []string
	Names    []string // pool of custom names (unique use)
}

// GenProviders draws a provider population with unique registration names.
func GenProviders(t *rapid.T, o ProvOpts) []ProvSpec {
	n := rapid.IntRange(o.Min, o.Max).Draw(t, "nprov")
	var out []ProvSpec
	unnamed := map[string]bool{} // by default registration name
	used := map[string]bool{}
	for i := 0; i < n; i++ {
		p := ProvSpec{Kind: rapid.SampledFrom(o.Kinds).Draw(t, "kind")}
		// at most one unnamed instance per type (default names are per type)
		wantName := rapid.IntRange(0, 2).Draw(t, "named") > 0
		defName := RegisteredName(ProvSpec{Kind: p.Kind})
		if zoo.ProviderKinds[p.Kind].NoName {
			if unnamed[defName] {
				continue
			}
			wantName = false
		}
		if unnamed[defName] {
			wantName = true
		}
		if wantName {
			var free []string
			for _, nm := range o.Names {
				if !used[nm] {
					free = append(free, nm)
				}
			}
			if len(free) == 0 {
				continue
			}
			p.Alias = rapid.SampledFrom(free).Draw(t, "alias")
			used[p.Alias] = true
		} else {
			unnamed[defName] = true
		}
		if len(o.Quals) > 0 {
			p.Qual = rapid.SampledFrom(o.Quals).Draw(t, "qual")
		}
		if len(o.Comps) > 0 {
			p.Comp = rapid.SampledFrom(o.Comps).Draw(t, "comp")
		}
		out = append(out, p)
	}
	return out
}

// Finish draws the orders.
func (s *Scenario) Finish(t *rapid.T) {
	total := len(s.Provs) + len(s.Cons)
	idx := make([]int, total)
	for i := range idx {
		idx[i] = i
	}
	s.RegPerm = rapid.Permutation(idx).Draw(t, "regperm")
	s.OrdMode = rapid.IntRange(0, 1).Draw(t, "ordmode")
	s.OrdSeed = rapid.Uint64().Draw(t, "ordseed")
}

// CompatibleSingles lists the single-valued type keys a provider kind is assignable to.
func CompatibleSingles(kind int) []string {
	obj := zoo.ProviderKinds[kind].New(&zoo.Beh{ID: -1})
	t := reflect.TypeOf(obj)
	var out []string
	for _, n := range SingleTypes {
		if t.AssignableTo(Types[n]) {
			out = append(out, n)
		}
	}
	return out
}

// DrawFieldType draws a field type, biased (3 in 4) towards types some provider of the scenario fits.
func DrawFieldType(t *rapid.T, provs []ProvSpec, slice bool) string {
	var typ string
	if len(provs) > 0 && rapid.IntRange(0, 3).Draw(t, "fit") > 0 {
		p := rapid.SampledFrom(provs).Draw(t, "fitprov")
		typ = rapid.SampledFrom(CompatibleSingles(p.Kind)).Draw(t, "fittype")
	} else {
		typ = rapid.SampledFrom(SingleTypes).Draw(t, "type")
	}
	if slice {
		return "[]" + typ
	}
	return typ
}

// RegisteredName is the name provider p is registered under.
func RegisteredName(p ProvSpec) string {
	if p.Alias != "" {
		return p.Alias
	}
	if d := zoo.ProviderKinds[p.Kind].DefName; d != "" {
		return d
	}
	return "verif/harness/zoo/" + zoo.ProviderKinds[p.Kind].Name
}

func init() {
	// alt-package providers (same type names as the main zoo's PA / PB)
	zoo.ProviderKinds = append(zoo.ProviderKinds,
		zoo.ProviderKind{Name: "altPA", New: altzoo.NewPA},
		zoo.ProviderKind{Name: "altPB", HasQual: true, New: altzoo.NewPB},
	)
	zoo.ProviderKinds = append(zoo.ProviderKinds, zoo.ExtraProviderKinds...) // 19 PLP, 20 PZQ, 21 PZR
}
