package c18

import (
	"fmt"
	"math"
	"reflect"
	"regexp"
	"sort"
	"strconv"
	"strings"
	"testing"
	"unicode/utf8"

	"github.com/expr-lang/expr"
	"github.com/go-kid/ioc/app"
	"github.com/go-kid/ioc/configure/loader"
	"github.com/go-playground/validator/v10"
	"gopkg.in/yaml.v3"
	"pgregory.net/rapid"
	"verif/harness/kit"
)

func TestMain(m *testing.M) { kit.Main(m) }

const rule = "expressions from a grammar (int / float / string literals, + - * / %, comparisons, && || !, ternary, in [...], contains) whose operands are literals or placeholders (with and without defaults) fed by a drawn configuration, alone or embedded in literal text; oracle: substitute placeholders with the reference, evaluate the resulting text directly with the expression library, the field (typed after the result) must hold exactly that; validation: value x constraint list from {required, eq, ne, min, max, gte, lte, len, number, alpha} on int and string fields bound from literals or configuration, and structs with validate tags bound by prefix; oracle: an independent reimplementation of the constraints (self-checked against the validator library) on the expected bound value - start-up fails iff violated; non-trivial = the expression's value depends on a placeholder, or the validated value sits at limit-1 / limit / limit+1 of a constraint; distinct by tag text + configuration; since rounds 7/8 also configured texts that refer to keys the expression uses directly, a case-sensitive user binder with mixed-case keys, and a priority-ordered post-processor that declines every component; a struct whose first member is private"

// ---- configuration --------------------------------------------------------------------------------

type cfgT struct {
	Nums  map[string]any    // n0..n3: int or float
	Strs  map[string]string // s0..s2
	Which string            // "", "a" or "b": selects c18.sel.<which>
	Derv  map[string]string // d0, d1: configured texts that refer to other keys ("${c18.n0:1}+${c18.n1:2}")
}

func genCfg(t *rapid.T) cfgT {
	c := cfgT{Nums: map[string]any{}, Strs: map[string]string{}, Derv: map[string]string{}}
	for i := 0; i < 2; i++ {
		if rapid.IntRange(0, 2).Draw(t, "dk") > 0 {
			c.Derv[fmt.Sprintf("d%d", i)] = fmt.Sprintf("${c18.n%d:%d}%s${c18.n%d:%d}", rapid.IntRange(0, 3).Draw(t, "da"), rapid.IntRange(1, 9).Draw(t, "dad"),
				rapid.SampledFrom([]string{"+", "*", "-"}).Draw(t, "dop"), rapid.IntRange(0, 3).Draw(t, "db"), rapid.IntRange(1, 9).Draw(t, "dbd"))
		}
	}
	for i := 0; i < 4; i++ {
		switch rapid.IntRange(0, 3).Draw(t, "nk") {
		case 0:
		case 1:
			c.Nums[fmt.Sprintf("n%d", i)] = float64(rapid.IntRange(-40, 40).Draw(t, "nf")) / 4
		default:
			c.Nums[fmt.Sprintf("n%d", i)] = rapid.IntRange(-20, 20).Draw(t, "ni")
		}
	}
	c.Which = rapid.SampledFrom([]string{"", "a", "b"}).Draw(t, "which")
	for i := 0; i < 3; i++ {
		if rapid.IntRange(0, 3).Draw(t, "sk") > 0 {
			c.Strs[fmt.Sprintf("s%d", i)] = rapid.StringMatching(`[a-z]{1,5}( [a-z]{1,3})?`).Draw(t, "sv")
		}
	}
	return c
}

func (c cfgT) yaml() []byte {
	m := map[string]any{}
	for k, v := range c.Nums {
		m[k] = v
	}
	for k, v := range c.Strs {
		m[k] = v
	}
	for k, v := range c.Derv {
		m[k] = v
	}
	m["sel"] = map[string]any{"a": 3, "b": 4}
	if c.Which != "" {
		m["which"] = c.Which
	}
	b, _ := yaml.Marshal(map[string]any{"c18": m, "pad": 1})
	return b
}

var phRe = regexp.MustCompile(`\$\{[^{}]*\}`)

// substitute: the reference placeholder stage (no nesting needed here).
func (c cfgT) substitute(s string) string {
	for i := 0; i < 10 && phRe.MatchString(s); i++ {
		s = c.substituteOnce(s)
	}
	// nested expressions: innermost first, each replaced by its value
	inner := regexp.MustCompile(`#\{[^{}]*\}`)
	for i := 0; i < 10 && inner.MatchString(s); i++ {
		s = inner.ReplaceAllStringFunc(s, func(e string) string {
			v, err := expr.Eval(e[2:len(e)-1], nil)
			if err != nil {
				return "(1/0)"
			}
			return fmtAny(v)
		})
	}
	return s
}

func (c cfgT) substituteOnce(s string) string {
	return phRe.ReplaceAllStringFunc(s, func(ph string) string {
		body := ph[2 : len(ph)-1]
		key, def, _ := strings.Cut(body, ":")
		k := strings.TrimPrefix(key, "c18.")
		if v, ok := c.Nums[k]; ok {
			return fmt.Sprint(v)
		}
		if v, ok := c.Strs[k]; ok {
			return v
		}
		if v, ok := c.Derv[k]; ok {
			return v
		}
		switch k {
		case "which":
			if c.Which != "" {
				return c.Which
			}
		case "sel.a":
			return "3"
		case "sel.b":
			return "4"
		}
		return def
	})
}

func sortedKeys[V any](m map[string]V) []string {
	var ks []string
	for k := range m {
		ks = append(ks, k)
	}
	sort.Strings(ks)
	return ks
}

// ---- expression grammar ---------------------------------------------------------------------------

type gen struct {
	t      *rapid.T
	c      cfgT
	usesPh bool
}

func (g *gen) num() string {
	switch rapid.IntRange(0, 6).Draw(g.t, "numkind") {
	case 0:
		return strconv.Itoa(rapid.OneOf(rapid.IntRange(0, 30), rapid.SampledFrom([]int{1000000, 2000000, 123456789})).Draw(g.t, "ilit"))
	case 1:
		return strconv.FormatFloat(float64(rapid.IntRange(1, 80).Draw(g.t, "flit"))/8, 'f', -1, 64)
	case 2:
		g.usesPh = true
		k := rapid.IntRange(0, 3).Draw(g.t, "nkey")
		return fmt.Sprintf("${c18.n%d:%d}", k, rapid.IntRange(1, 9).Draw(g.t, "ndef"))
	case 3:
		// present key without default
		if ks := sortedKeys(g.c.Nums); len(ks) > 0 {
			g.usesPh = true
			return "${c18." + rapid.SampledFrom(ks).Draw(g.t, "pkey") + "}"
		}
		return "3"
	case 4:
		if len(g.c.Derv) > 0 && rapid.Bool().Draw(g.t, "derived") {
			// a configured text that itself refers to keys the expression may also use directly
			ks := sortedKeys(g.c.Derv)
			g.usesPh = true
			return "(${c18." + rapid.SampledFrom(ks).Draw(g.t, "dkey") + "})"
		}
		return "(" + g.arith(1) + ")"
	case 5:
		g.usesPh = true
		if rapid.Bool().Draw(g.t, "nestedexpr") {
			// an expression inside the expression (innermost first)
			return "#{" + strconv.Itoa(rapid.IntRange(1, 9).Draw(g.t, "ne1")) + "+" + strconv.Itoa(rapid.IntRange(1, 9).Draw(g.t, "ne2")) + "}"
		}
		// a placeholder whose key is built from another placeholder
		return "${c18.sel.${c18.which:a}}"
	}
	return strconv.Itoa(rapid.IntRange(1, 9).Draw(g.t, "ilit2"))
}

func (g *gen) arith(depth int) string {
	s := g.num()
	n := rapid.IntRange(0, 2-depth).Draw(g.t, "nops")
	for i := 0; i < n; i++ {
		op := rapid.SampledFrom([]string{"+", "-", "*", "/", " % "}).Draw(g.t, "op")
		if op == "/" || op == " % " {
			// keep divisors literal and non-zero; % needs integers on both sides
			if op == " % " {
				return "(" + strconv.Itoa(rapid.IntRange(0, 50).Draw(g.t, "ml")) + op + strconv.Itoa(rapid.IntRange(1, 9).Draw(g.t, "mr")) + ")"
			}
			s += op + strconv.Itoa(rapid.IntRange(1, 9).Draw(g.t, "div"))
		} else {
			s += op + g.num()
		}
	}
	return s
}

func (g *gen) cmp() string {
	return g.arith(1) + rapid.SampledFrom([]string{">", ">=", "<", "<=", "==", "!="}).Draw(g.t, "cmp") + g.arith(1)
}

func (g *gen) str() string {
	switch rapid.IntRange(0, 2).Draw(g.t, "strkind") {
	case 0:
		g.usesPh = true
		return fmt.Sprintf("'${c18.s%d:%s}'", rapid.IntRange(0, 2).Draw(g.t, "skey"), rapid.StringMatching(`[a-z]{1,3}`).Draw(g.t, "sdef"))
	case 1:
		return "'" + rapid.StringMatching(`[a-z]{1,4}`).Draw(g.t, "slit") + "'"
	default:
		// blanks at the edges (and nothing but a blank) are part of the result
		return "'" + rapid.SampledFrom([]string{" a", "b ", " ", " c d ", "e"}).Draw(g.t, "sblank") + "'"
	}
}

func (g *gen) boolean() string {
	switch rapid.IntRange(0, 4).Draw(g.t, "boolkind") {
	case 0:
		return g.cmp() + rapid.SampledFrom([]string{"&&", "||"}).Draw(g.t, "bop") + g.cmp()
	case 1:
		return "!(" + g.cmp() + ")"
	case 2:
		return g.str() + " contains " + g.str()
	case 3:
		return g.str() + " in [" + g.str() + "," + g.str() + "]"
	}
	return g.cmp()
}

func (g *gen) expression() string {
	switch rapid.IntRange(0, 4).Draw(g.t, "exprkind") {
	case 0:
		return g.arith(0)
	case 1:
		return g.boolean()
	case 2:
		return g.boolean() + "?" + g.str() + ":" + g.str()
	case 3:
		return g.boolean() + "?" + g.arith(1) + ":" + g.arith(1)
	}
	return g.str() + "+" + g.str()
}

// caseBinder is a user Binder (app.SetConfigBinder) whose keys are CASE SENSITIVE - a plain nested map, as a binder
// over a key/value store or the environment would be.
type caseBinder struct{ root map[string]any }

func mergeInto(dst, src map[string]any) {
	for k, v := range src {
		if sm, ok := v.(map[string]any); ok {
			if dm, ok := dst[k].(map[string]any); ok {
				mergeInto(dm, sm)
				continue
			}
		}
		dst[k] = v
	}
}

func (b *caseBinder) SetConfig(c []byte) error {
	m := map[string]any{}
	if err := yaml.Unmarshal(c, &m); err != nil {
		return err
	}
	mergeInto(b.root, m)
	return nil
}

func (b *caseBinder) Get(path string) any {
	if path == "" {
		return b.root
	}
	var cur any = b.root
	for _, seg := range strings.Split(path, ".") {
		m, ok := cur.(map[string]any)
		if !ok {
			return nil
		}
		if cur, ok = m[seg]; !ok {
			return nil
		}
	}
	return cur
}

func (b *caseBinder) Set(path string, val any) {
	segs := strings.Split(path, ".")
	m := b.root
	for _, seg := range segs[:len(segs)-1] {
		nm, ok := m[seg].(map[string]any)
		if !ok {
			nm = map[string]any{}
			m[seg] = nm
		}
		m = nm
	}
	m[segs[len(segs)-1]] = val
}

func TestExpressions(t *testing.T) {
	kit.Rec.Rule(rule)
	rapid.Check(t, propExpressions)
}

// FuzzExpressions drives the same property with coverage-guided native fuzzing (thorough tier).
func FuzzExpressions(f *testing.F) { f.Fuzz(rapid.MakeFuzz(propExpressions)) }

func propExpressions(t *rapid.T) {
	{
		c := genCfg(t)
		g := &gen{t: t, c: c}
		e := g.expression()
		if strings.ContainsAny(e, ",") && !strings.Contains(e, "[") {
			t.Skip("comma outside brackets would end the tag value")
		}
		sub := c.substitute(e)
		want, err := expr.Eval(sub, nil)
		if err != nil {
			t.Skip("reference evaluation fails: " + err.Error())
		}
		if f, ok := want.(float64); ok && (math.IsNaN(f) || math.IsInf(f, 0)) {
			t.Skip("non-finite")
		}
		if s, ok := want.(string); ok && s == "" {
			t.Skip("empty result")
		}
		embed := ""
		typ := reflect.TypeOf(want)
		// an integral float result (7/1, 2000000/2) may also land in an int field
		embedIt := rapid.IntRange(0, 4).Draw(t, "embedded") == 0
		if f, ok := want.(float64); ok && !embedIt && f == math.Trunc(f) && math.Abs(f) < 1<<53 && rapid.Bool().Draw(t, "intfield") {
			typ = reflect.TypeOf(0)
			want = int(f)
		}
		var embeddedFloat *float64
		if embedIt {
			embed = "pre-"
			typ = reflect.TypeOf("")
			if f, ok := want.(float64); ok {
				embeddedFloat = &f
			}
			if i, ok := want.(int); ok && reflect.TypeOf(want).Kind() == reflect.Int {
				_ = i
			}
			want = embed + fmtAny(want)
		}
		tag := embed + "#{" + e + "}"
		cfgDoc := c.yaml()
		// now and then the expression is not written in the tag but configured: the tag only refers to it
		viaConfig := !strings.ContainsAny(e, "\"\\\n") && rapid.IntRange(0, 3).Draw(t, "exprviaconfig") == 0
		if viaConfig {
			cfgDoc = append(append([]byte{}, cfgDoc...), []byte("c18x:\n  expr: "+strconv.Quote(tag)+"\n")...)
			tag = "${c18x.expr}"
		}
		// now and then the application brings its own, case-sensitive binder, and its keys are not all lower case
		ownBinder := rapid.IntRange(0, 4).Draw(t, "ownbinder") == 0
		if ownBinder {
			tag = strings.ReplaceAll(strings.ReplaceAll(tag, "${c18.", "${C18."), "${c18x.", "${C18x.")
			d := strings.ReplaceAll(string(cfgDoc), "${c18.", "${C18.")
			d = strings.Replace(d, "c18:\n", "C18:\n", 1)
			d = strings.Replace(d, "c18x:\n", "C18x:\n", 1)
			cfgDoc = []byte(d)
		}
		dc := kit.DrawDecoys(t) // neighbouring fields of other tag kinds must not matter
		if ownBinder {
			dc = &kit.Decoys{} // (the decoy fields use the default binder's keys)
		}
		field := reflect.StructField{Name: "F", Type: typ, Tag: reflect.StructTag("value:" + strconv.Quote(tag))}
		var obj reflect.Value
		// ... and now and then the field sits in an embedded struct (one or two levels down) instead of on the component
		switch rapid.IntRange(0, 3).Draw(t, "embeddedfield") {
		case 0:
			inner := reflect.StructOf([]reflect.StructField{field})
			obj = reflect.New(reflect.StructOf(dc.Around(reflect.StructField{Name: "Inner", Type: inner, Anonymous: true})))
		case 1:
			inner := reflect.StructOf([]reflect.StructField{field})
			mid := reflect.StructOf([]reflect.StructField{{Name: "Inner", Type: inner, Anonymous: true}})
			obj = reflect.New(reflect.StructOf(dc.Around(reflect.StructField{Name: "Mid", Type: mid, Anonymous: true})))
		default:
			obj = reflect.New(reflect.StructOf(dc.Around(field)))
		}
		prefilled := rapid.IntRange(0, 2).Draw(t, "prefilled") == 0 && prefillNonZero(obj.Elem().FieldByName("F"))
		ops := []app.SettingOption{app.SetComponents(obj.Interface()), app.SetConfigLoader(loader.NewRawLoader(cfgDoc))}
		if ownBinder {
			ops = append([]app.SettingOption{app.SetConfigBinder(&caseBinder{root: map[string]any{}})}, ops...)
		}
		out := kit.RunApp(ops...)
		if out.OK() {
			if err := dc.Check(obj); err != nil {
				t.Fatalf("C18: %v%s", err, dc)
			}
		}
		desc := fmt.Sprintf("value:%q cfg nums=%v strs=%v => %q", tag, c.Nums, c.Strs, sub)
		if out.Panic != nil {
			t.Fatalf("C18: panic %v\n%s", out.Panic, desc)
		}
		if out.Err != nil {
			t.Fatalf("C18: the expression evaluates (after substitution: %s = %#v) but start-up failed: %v\n%s", sub, want, out, desc)
		}
		got := obj.Elem().FieldByName("F").Interface()
		if embed != "" && embeddedFloat != nil {
			// a float rendered inside text: any decimal spelling of the same number is fine
			gs, _ := got.(string)
			f, perr := strconv.ParseFloat(strings.TrimPrefix(gs, embed), 64)
			if !strings.HasPrefix(gs, embed) || perr != nil || f != *embeddedFloat {
				t.Fatalf("C18: field holds %q, expected %q followed by the number %v\n%s", gs, embed, *embeddedFloat, desc)
			}
			got = want
		}
		if !reflect.DeepEqual(got, want) {
			t.Fatalf("C18: field holds %#v, direct evaluation of the substituted expression %q gives %#v\n%s", got, sub, want, desc)
		}
		labs := []string{"result/" + typ.String()}
		if prefilled && reflect.ValueOf(want).IsZero() {
			labs = append(labs, "zero-result-into-prefilled-field")
		}
		kit.Rec.Case(desc, g.usesPh && sub != e, labs...)
	}
}

// prefillNonZero gives a field a non-zero content before the start ("defaults" set in the constructor): whatever is
// bound - also a zero, a false, an empty result - must replace it.
func prefillNonZero(f reflect.Value) bool {
	switch f.Kind() {
	case reflect.Int, reflect.Int8, reflect.Int16, reflect.Int32, reflect.Int64:
		f.SetInt(5)
	case reflect.Uint, reflect.Uint8, reflect.Uint16, reflect.Uint32, reflect.Uint64:
		f.SetUint(5)
	case reflect.Float32, reflect.Float64:
		f.SetFloat(1.5)
	case reflect.Bool:
		f.SetBool(true)
	case reflect.String:
		f.SetString("old")
	default:
		return false
	}
	return true
}

func fmtAny(v any) string {
	switch x := v.(type) {
	case string:
		return x
	case bool:
		return strconv.FormatBool(x)
	}
	return fmt.Sprintf("%v", v)
}

// ---- validation ------------------------------------------------------------------------------------

type constraint struct {
	Name string
	Arg  string
}

func (c constraint) String() string {
	if c.Arg == "" {
		return c.Name
	}
	return c.Name + "=" + c.Arg
}

// holds: independent reimplementation for int64 and string values.
func holds(v any, c constraint) bool {
	switch x := v.(type) {
	case int64:
		n, _ := strconv.ParseInt(c.Arg, 10, 64)
		switch c.Name {
		case "required":
			return x != 0
		case "eq", "len":
			return x == n
		case "ne":
			return x != n
		case "min", "gte":
			return x >= n
		case "max", "lte":
			return x <= n
		case "gt":
			return x > n
		case "lt":
			return x < n
		}
	case string:
		l := int64(utf8.RuneCountInString(x))
		n, _ := strconv.ParseInt(c.Arg, 10, 64)
		switch c.Name {
		case "required":
			return x != ""
		case "eq":
			return x == c.Arg
		case "ne":
			return x != c.Arg
		case "min", "gte":
			return l >= n
		case "max", "lte":
			return l <= n
		case "gt":
			return l > n
		case "lt":
			return l < n
		case "len":
			return l == n
		case "number":
			return regexp.MustCompile(`^[0-9]+$`).MatchString(x)
		case "alpha":
			return regexp.MustCompile(`^[a-zA-Z]+$`).MatchString(x)
		}
	}
	panic("harness: unknown constraint " + c.String())
}

var vld = validator.New(validator.WithRequiredStructEnabled())

func TestValidateVar(t *testing.T) {
	kit.Rec.Rule(rule)
	rapid.Check(t, func(t *rapid.T) {
		isInt := rapid.Bool().Draw(t, "isint")
		var cs []constraint
		n := rapid.IntRange(1, 3).Draw(t, "ncons")
		limit := rapid.IntRange(0, 12).Draw(t, "limit")
		for i := 0; i < n; i++ {
			var names []string
			if isInt {
				names = []string{"required", "eq", "ne", "min", "max", "gte", "lte", "gt", "lt"}
			} else {
				names = []string{"required", "eq", "ne", "min", "max", "gte", "lte", "len", "number", "alpha"}
			}
			c := constraint{Name: rapid.SampledFrom(names).Draw(t, "cname")}
			switch c.Name {
			case "required", "number", "alpha":
			case "eq", "ne":
				if isInt {
					c.Arg = strconv.Itoa(limit)
				} else {
					c.Arg = rapid.SampledFrom([]string{"abc", "ab", "x1"}).Draw(t, "eqs")
				}
			default:
				c.Arg = strconv.Itoa(limit + rapid.IntRange(-1, 1).Draw(t, "ldelta"))
			}
			cs = append(cs, c)
		}
		// an order-sensitive list: omitempty in front lets a zero value pass whatever follows
		omit := isInt && rapid.IntRange(0, 3).Draw(t, "omitempty") == 0
		if omit {
			cs = append([]constraint{{Name: "omitempty"}}, cs...)
		}
		var val any
		var text string
		boundary := false
		if isInt {
			d := rapid.SampledFrom([]int{-1, 0, 1, -5, 5, -100}).Draw(t, "delta")
			boundary = d >= -1 && d <= 1
			x := int64(limit + d)
			if rapid.IntRange(0, 5).Draw(t, "zero") == 0 {
				x = 0
			}
			val, text = x, strconv.FormatInt(x, 10)
		} else {
			s := rapid.OneOf(rapid.SampledFrom([]string{"abc", "ab", "x1", "123", "0", "a"}), rapid.StringMatching(`[a-z0-9]{1,14}`)).Draw(t, "sval")
			boundary = len(s) >= limit-1 && len(s) <= limit+1
			val, text = s, s
		}
		// through a literal or through configuration
		viaCfg := rapid.Bool().Draw(t, "viacfg")
		var items []string
		for _, c := range cs {
			items = append(items, c.String())
		}
		valPart := text
		cfg := "c18:\n  pad: 1\n"
		if viaCfg {
			valPart = "${c18.v}"
			cfg = "c18:\n  v: " + strconv.Quote(text) + "\n"
			if isInt {
				cfg = "c18:\n  v: " + text + "\n"
			}
		}
		withValidate := rapid.IntRange(0, 5).Draw(t, "withvalidate") > 0
		tag := valPart
		if withValidate {
			tag += ",validate=" + strings.Join(items, " ")
		}
		typ := reflect.TypeOf("")
		if isInt {
			typ = reflect.TypeOf(int64(0))
		}
		dc := kit.DrawDecoys(t) // neighbouring fields of other tag kinds must not matter
		obj := reflect.New(reflect.StructOf(dc.Around(reflect.StructField{Name: "F", Type: typ, Tag: reflect.StructTag("value:" + strconv.Quote(tag))})))
		prefilled := rapid.IntRange(0, 2).Draw(t, "prefilled") == 0 && prefillNonZero(obj.Elem().FieldByName("F"))
		out := kit.RunApp(app.SetComponents(obj.Interface()), app.SetConfigLoader(loader.NewRawLoader([]byte(cfg))))
		if out.OK() {
			if err := dc.Check(obj); err != nil {
				t.Fatalf("C18: %v%s", err, dc)
			}
		}
		desc := fmt.Sprintf("value:%q (%s) cfg=%q prefilled=%v", tag, typ, cfg, prefilled)
		if out.Panic != nil {
			t.Fatalf("C18: panic %v\n%s", out.Panic, desc)
		}
		ok := true
		for _, c := range cs {
			if c.Name == "omitempty" {
				if x, isI := val.(int64); isI && x == 0 {
					break // zero value: the rest of the list is not looked at
				}
				continue
			}
			if !holds(val, c) {
				ok = false
			}
		}
		// harness self-check against the library
		if libErr := vld.Var(val, strings.Join(items, ",")); (libErr == nil) != ok {
			t.Fatalf("HARNESS: reference verdict %v disagrees with the validator library (%v) for %v %v", ok, libErr, val, items)
		}
		expectFail := withValidate && !ok
		if (out.Err != nil) != expectFail {
			t.Fatalf("C18: bound value %#v, constraints %v (validate present: %v): reference says violated=%v, but start-up %s\n%s", val, items, withValidate, !ok, map[bool]string{true: "failed: " + out.String(), false: "succeeded"}[out.Err != nil], desc)
		}
		if out.Err == nil {
			if got := obj.Elem().FieldByName("F").Interface(); !reflect.DeepEqual(got, val) {
				t.Fatalf("C18: field holds %#v, expected %#v\n%s", got, val, desc)
			}
		}
		lab := "validate-pass"
		if expectFail {
			lab = "validate-fail"
		}
		if !withValidate {
			lab = "no-validate"
		}
		kit.Rec.Case(desc, boundary && withValidate, lab)
	})
}

type VS struct {
	A int    `yaml:"a" validate:"gte=1,lte=9"`
	B string `yaml:"b" validate:"required,min=2"`
	C []int  `yaml:"c" validate:"max=3"`
	N VN     `yaml:"n,omitempty" validate:"required"` // a nested (non-pointer) section that must be configured
}

// VSP is VS with a private member declared FIRST (a mutex, a cache, a counter): its exported members carry the same
// constraints and are validated all the same.
type VSP struct {
	hits int
	A    int    `yaml:"a" validate:"gte=1,lte=9"`
	B    string `yaml:"b" validate:"required,min=2"`
	C    []int  `yaml:"c" validate:"max=3"`
	N    VN     `yaml:"n,omitempty" validate:"required"`
}

type VN struct {
	X int    `yaml:"x,omitempty"`
	Y string `yaml:"y,omitempty"`
}

func TestValidateStruct(t *testing.T) {
	kit.Rec.Rule(rule)
	rapid.Check(t, func(t *rapid.T) {
		v := VS{A: rapid.IntRange(-1, 11).Draw(t, "a"), B: rapid.SampledFrom([]string{"", "x", "xy", "hello"}).Draw(t, "b"), C: rapid.SliceOfN(rapid.IntRange(0, 5), 0, 5).Draw(t, "c")}
		if rapid.IntRange(0, 3).Draw(t, "nested") != 0 {
			v.N = VN{X: rapid.IntRange(0, 2).Draw(t, "nx"), Y: rapid.SampledFrom([]string{"", "y"}).Draw(t, "ny")}
		}
		doc, _ := yaml.Marshal(map[string]any{"c18": map[string]any{"vs": v, "pad": 1}})
		withValidate := rapid.IntRange(0, 4).Draw(t, "withvalidate") > 0
		ptr := rapid.Bool().Draw(t, "ptr")
		tag := "c18.vs"
		if withValidate {
			tag += ",validate"
		}
		typ := reflect.TypeOf(VS{})
		if ptr {
			typ = reflect.TypeOf(&VS{})
		}
		privateFirst := rapid.IntRange(0, 2).Draw(t, "privatefirst") == 0
		if privateFirst {
			typ = reflect.TypeOf(VSP{})
			if ptr {
				typ = reflect.TypeOf(&VSP{})
			}
		}
		dc := kit.DrawDecoys(t) // neighbouring fields of other tag kinds must not matter
		obj := reflect.New(reflect.StructOf(dc.Around(reflect.StructField{Name: "F", Type: typ, Tag: reflect.StructTag("prefix:" + strconv.Quote(tag))})))
		out := kit.RunApp(app.SetComponents(obj.Interface()), app.SetConfigLoader(loader.NewRawLoader(doc)))
		if out.OK() {
			if err := dc.Check(obj); err != nil {
				t.Fatalf("C18: %v%s", err, dc)
			}
		}
		desc := fmt.Sprintf("prefix:%q ptr=%v private-member-first=%v value %+v", tag, ptr, privateFirst, v)
		if out.Panic != nil {
			t.Fatalf("C18: panic %v\n%s", out.Panic, desc)
		}
		ok := v.A >= 1 && v.A <= 9 && utf8.RuneCountInString(v.B) >= 2 && len(v.C) <= 3 && v.N != (VN{})
		if libErr := vld.Struct(v); (libErr == nil) != ok {
			t.Fatalf("HARNESS: reference verdict %v disagrees with the validator library (%v) for %+v", ok, libErr, v)
		}
		expectFail := withValidate && !ok
		if (out.Err != nil) != expectFail {
			t.Fatalf("C18: struct %+v (validate present: %v): reference says violated=%v, but start-up %s\n%s", v, withValidate, !ok, map[bool]string{true: "failed: " + out.String(), false: "succeeded"}[out.Err != nil], desc)
		}
		boundary := v.A == 0 || v.A == 1 || v.A == 9 || v.A == 10 || len(v.B) == 1 || len(v.B) == 2 || len(v.C) == 3 || len(v.C) == 4
		lab := []string{"struct"}
		if v.N == (VN{}) && v.A >= 1 && v.A <= 9 && utf8.RuneCountInString(v.B) >= 2 && len(v.C) <= 3 {
			lab = append(lab, "only-the-nested-section-is-missing")
			boundary = true
		}
		kit.Rec.Case(desc, boundary && withValidate, lab...)
	})
}

// TestValidateMulti: several validated fields on ONE component (structs bound by prefix and scalars
// bound by value, in drawn declaration order): start-up fails iff at least one of them is violated.
func TestValidateMulti(t *testing.T) {
	kit.Rec.Rule(rule)
	rapid.Check(t, func(t *rapid.T) {
		n := rapid.IntRange(2, 4).Draw(t, "nfields")
		var fields []reflect.StructField
		cfg := map[string]any{"pad": 1}
		anyViolated := false
		var verdicts []string
		for i := 0; i < n; i++ {
			name := fmt.Sprintf("F%d", i)
			switch rapid.IntRange(0, 2).Draw(t, "fkind") {
			case 0: // struct by prefix
				v := VS{A: rapid.SampledFrom([]int{0, 1, 5, 9, 10}).Draw(t, "a"), B: rapid.SampledFrom([]string{"x", "xy", "hello"}).Draw(t, "b")}
				if rapid.IntRange(0, 4).Draw(t, "nested") != 0 {
					v.N = VN{X: 1}
				}
				cfg[fmt.Sprintf("vs%d", i)] = v
				ok := v.A >= 1 && v.A <= 9 && len(v.B) >= 2 && v.N != (VN{})
				if libErr := vld.Struct(v); (libErr == nil) != ok {
					t.Fatalf("HARNESS: struct verdict mismatch for %+v: %v", v, libErr)
				}
				anyViolated = anyViolated || !ok
				verdicts = append(verdicts, fmt.Sprintf("%s:struct%+v ok=%v", name, v, ok))
				typ := reflect.TypeOf(VS{})
				if rapid.Bool().Draw(t, "ptr") {
					typ = reflect.TypeOf(&VS{})
				}
				fields = append(fields, reflect.StructField{Name: name, Type: typ, Tag: reflect.StructTag(fmt.Sprintf(`prefix:"c18.vs%d,validate"`, i))})
			case 1: // int by value
				limit := rapid.IntRange(1, 9).Draw(t, "limit")
				x := limit + rapid.IntRange(-1, 1).Draw(t, "delta")
				cons := rapid.SampledFrom([]string{"gte", "lte", "eq", "ne", "gt", "lt"}).Draw(t, "cons")
				ok := holds(int64(x), constraint{cons, strconv.Itoa(limit)})
				anyViolated = anyViolated || !ok
				verdicts = append(verdicts, fmt.Sprintf("%s:int %d %s=%d ok=%v", name, x, cons, limit, ok))
				fields = append(fields, reflect.StructField{Name: name, Type: reflect.TypeOf(0), Tag: reflect.StructTag(fmt.Sprintf(`value:"%d,validate=%s=%d"`, x, cons, limit))})
			default: // string by value from configuration
				s := rapid.SampledFrom([]string{"ab", "abc", "abcd", "a1"}).Draw(t, "s")
				cons := rapid.SampledFrom([]constraint{{"min", "3"}, {"max", "3"}, {"len", "3"}, {"alpha", ""}, {"eq", "abc"}}).Draw(t, "scons")
				ok := holds(s, cons)
				anyViolated = anyViolated || !ok
				cfg[fmt.Sprintf("s%d", i)] = s
				verdicts = append(verdicts, fmt.Sprintf("%s:string %q %s ok=%v", name, s, cons, ok))
				fields = append(fields, reflect.StructField{Name: name, Type: reflect.TypeOf(""), Tag: reflect.StructTag(fmt.Sprintf(`value:"${c18.s%d},validate=%s"`, i, cons))})
			}
		}
		doc, _ := yaml.Marshal(map[string]any{"c18": cfg})
		obj := reflect.New(reflect.StructOf(fields))
		out := kit.RunApp(app.SetComponents(obj.Interface()), app.SetConfigLoader(loader.NewRawLoader(doc)))
		desc := strings.Join(verdicts, " | ")
		if out.Panic != nil {
			t.Fatalf("C18: panic %v\n%s", out.Panic, desc)
		}
		if (out.Err != nil) != anyViolated {
			t.Fatalf("C18: one component with validated fields [%s]: some constraint violated=%v, but start-up %s", desc, anyViolated, map[bool]string{true: "failed: " + out.String(), false: "succeeded"}[out.Err != nil])
		}
		kit.Rec.Case(desc, true, "multi-field")
	})
}

// TestValidateUnboundPointer: an optional pointer field that stays nil is validated like any other value:
// start-up fails exactly when nil violates the constraints (required, min, eq ...), not otherwise.
func TestValidateUnboundPointer(t *testing.T) {
	kit.Rec.Rule(rule)
	rapid.Check(t, func(t *rapid.T) {
		isInt := rapid.Bool().Draw(t, "isint")
		cons := rapid.SampledFrom([]string{"required", "min=1", "omitempty min=3", "omitempty", "eq=5", "max=3"}).Draw(t, "cons")
		bound := rapid.Bool().Draw(t, "bound")
		via := rapid.SampledFrom([]string{"value", "prop", "prefix"}).Draw(t, "via")
		var typ reflect.Type
		var val any
		cfg := "c18:\n  pad: 1\n"
		if isInt {
			typ = reflect.TypeOf((*int64)(nil))
			if bound {
				x := int64(rapid.IntRange(0, 6).Draw(t, "x"))
				val, cfg = &x, fmt.Sprintf("c18:\n  v: %d\n", x)
			} else {
				val = (*int64)(nil)
			}
		} else {
			typ = reflect.TypeOf((*string)(nil))
			if bound {
				x := rapid.SampledFrom([]string{"ab", "abcd", "5"}).Draw(t, "s")
				val, cfg = &x, fmt.Sprintf("c18:\n  v: %q\n", x)
			} else {
				val = (*string)(nil)
			}
		}
		tag := map[string]string{"value": "${c18.v}", "prop": "c18.v", "prefix": "c18.v"}[via] + ",required=false,validate=" + cons
		dc := kit.DrawDecoys(t) // neighbouring fields of other tag kinds must not matter
		obj := reflect.New(reflect.StructOf(dc.Around(reflect.StructField{Name: "F", Type: typ, Tag: reflect.StructTag(via + ":" + strconv.Quote(tag))})))
		out := kit.RunApp(app.SetComponents(obj.Interface()), app.SetConfigLoader(loader.NewRawLoader([]byte(cfg))))
		if out.OK() {
			if err := dc.Check(obj); err != nil {
				t.Fatalf("C18: %v%s", err, dc)
			}
		}
		desc := fmt.Sprintf("%s:%q (%s) bound=%v cfg=%q", via, tag, typ, bound, cfg)
		if out.Panic != nil {
			t.Fatalf("C18: panic %v\n%s", out.Panic, desc)
		}
		// the library is the reference here (nil pointers are its corner case, not re-implemented)
		libErr := vld.Var(val, strings.ReplaceAll(cons, " ", ","))
		if (out.Err != nil) != (libErr != nil) {
			t.Fatalf("C18: the bound value is %v; the constraints %q are violated=%v, but start-up %s\n%s", fmtPtr(val), cons, libErr != nil, map[bool]string{true: "failed: " + out.String(), false: "succeeded"}[out.Err != nil], desc)
		}
		kit.Rec.Case(desc, !bound, "pointer-validation")
	})
}

func fmtPtr(v any) string {
	rv := reflect.ValueOf(v)
	if rv.IsNil() {
		return "<nil pointer>"
	}
	return fmt.Sprint(rv.Elem().Interface())
}

// ---- a history: a lazily created component is created again after the configuration was corrected --------------

type HExpr struct {
	E    int    `value:"#{${c18h.base:1}*10}"`
	S    string `value:"n=#{${c18h.base:1}+1}"`
	G    int    `value:"${c18h.base:1},validate=min=5"`
	B    bool   `value:"#{${c18h.base:1}>6}"`
	Runs int
}

func (*HExpr) LazyInit()      {}
func (*HExpr) Naming() string { return "c18h-lazy" }
func (h *HExpr) Init() error  { h.Runs++; return nil }

// TestRetryHistory: expressions are evaluated over the placeholder values current at each creation attempt, and
// validation judges the value bound in that attempt: while c18h.base < 5 the lookup fails (validate=min=5); once the
// configuration has been corrected through Set the next lookup succeeds and every field shows the new value.
func TestRetryHistory(t *testing.T) {
	kit.Rec.Rule(rule)
	rapid.Check(t, func(t *rapid.T) {
		h := &HExpr{}
		doc := "c18h:\n  pad: 1\n"
		base := 1
		if rapid.Bool().Draw(t, "configured") {
			base = rapid.IntRange(1, 9).Draw(t, "base0")
			doc = fmt.Sprintf("c18h:\n  base: %d\n", base)
		}
		out := kit.RunApp(app.SetComponents(h), app.SetConfigLoader(loader.NewRawLoader([]byte(doc))))
		if !out.OK() {
			t.Fatalf("C18: start failed: %v", out)
		}
		var hist []string
		failedBefore := false
		created := false
		for i := rapid.IntRange(1, 4).Draw(t, "steps"); i > 0 && !created; i-- {
			if rapid.IntRange(0, 2).Draw(t, "set") > 0 {
				base = rapid.IntRange(1, 9).Draw(t, "base")
				out.App.Set("c18h.base", base)
				hist = append(hist, fmt.Sprintf("set base=%d", base))
			}
			_, err := out.App.GetComponentByName("c18h-lazy")
			hist = append(hist, fmt.Sprintf("lookup fails=%v", err != nil))
			if base < 5 {
				if err == nil {
					t.Fatalf("C18: c18h.base=%d violates validate=min=5, yet the lookup succeeded (G=%d); history %v", base, h.G, hist)
				}
				failedBefore = true
				continue
			}
			if err != nil {
				t.Fatalf("C18: c18h.base=%d satisfies validate=min=5 now, yet the lookup fails: %v; history %v", base, err, hist)
			}
			created = true
			if h.E != base*10 || h.S != fmt.Sprintf("n=%d", base+1) || h.G != base || h.B != (base > 6) {
				t.Fatalf("C18: with c18h.base=%d the component holds E=%d S=%q G=%d B=%v, expected E=%d S=%q G=%d B=%v; history %v", base, h.E, h.S, h.G, h.B, base*10, fmt.Sprintf("n=%d", base+1), base, base > 6, hist)
			}
		}
		lab := []string{"retry-history"}
		if created && failedBefore {
			lab = append(lab, "created-after-a-failed-attempt")
		}
		kit.Rec.Case(doc+" | "+strings.Join(hist, ";"), created && failedBefore, lab...)
	})
}
