package c11

import (
	"fmt"
	"github.com/go-kid/ioc/container"
	"reflect"
	"sort"
	"strconv"
	"strings"
	"testing"
	"unsafe"

	"github.com/go-kid/ioc/app"
	"github.com/go-kid/ioc/component_definition"
	"github.com/go-kid/ioc/configure/loader"
	"github.com/go-kid/ioc/container/processors"
	"github.com/go-kid/ioc/definition"
	"github.com/go-kid/ioc/syslog"
	"pgregory.net/rapid"
	"verif/harness/kit"
	"verif/harness/zoo"
)

func TestMain(m *testing.M) { kit.Main(m) }

const rule = "a flat list of leaf fields (tags from wire, func, value, prop, prefix, logger, a custom tag, a foreign tag, none; exported or unexported) and a random ordered tree that re-nests the same leaves into anonymous, untagged, by-value run-time structs (depth<=5); flat and nested consumer are registered in the same App next to a recording custom-tag processor; plus static fixtures with unexported embedded types; oracle: leaf-by-leaf equality of both consumers and the expected values, sentinels of untagged / unexported / foreign-tagged leaves untouched, recorder received exactly the custom-tagged leaves with value and arguments; non-trivial = nesting depth >=2 and >=1 tagged plus >=1 frame leaf; distinct by leaf list + tree shape; since rounds 7/8 also an extract handler answering with its own alias tag name, two scanners of ONE Go type, a scanner that learns its tag in its factory callback, and a scanner that reads the definition's properties while scanning"

const pkg = "verif/harness/c11"

// ---- custom tag machinery ------------------------------------------------------------------

type CustomScan struct {
	processors.DefaultTagScanDefinitionRegistryPostProcessor
	id      string
	lateTag string // a scanner that learns its tag in its factory callback (from the factory's configuration, say)
}

// PostProcessComponentFactory: the factory callbacks come before the definition scan.
func (c *CustomScan) PostProcessComponentFactory(f container.Factory) error {
	if c.lateTag != "" {
		c.Tag = c.lateTag
	}
	return nil
}

type rec struct{ Comp, Field, Val, Args string }

// customNodeType: the user scanner files its properties under the built-in Configuration type in every second
// process run (a field carrying both a built-in configuration tag and the custom tag then has two properties of one type).
var customNodeType component_definition.PropertyType = component_definition.PropertyTypeConfiguration

// newScan: a user scanner with a tag AND an extract handler (fields carrying `alt:"v"` are accepted as mytag:"v").
func newScan() *CustomScan {
	return &CustomScan{id: "mytag", DefaultTagScanDefinitionRegistryPostProcessor: processors.DefaultTagScanDefinitionRegistryPostProcessor{NodeType: customNodeType, Tag: "mytag",
		ExtractHandler: func(meta *component_definition.Meta, field *component_definition.Field) (tag, tagVal string, ok bool) {
			// user code may look at what the earlier scanners have found so far (public API)
			_ = meta.GetAllProperties()
			// the property is filed under the tag name the field really carries (the legacy alias), not under Tag
			tagVal, ok = field.StructField.Tag.Lookup("alt")
			return "alt", tagVal, ok
		}}}
}

type CustomPP struct {
	processors.DefaultInstantiationAwareComponentPostProcessor
	seen          []rec
	ReturnHandled bool
	Second        *CustomPP2
}

func (m *CustomPP) Order() int { return 100 }
func (m *CustomPP) PostProcessAfterInstantiation(component any, componentName string) (bool, error) {
	return true, nil
}
func (m *CustomPP) PostProcessProperties(props []*component_definition.Property, component any, name string) ([]*component_definition.Property, error) {
	handled := []*component_definition.Property{}
	for _, d := range props {
		if d.Tag != "mytag" && d.Tag != "alt" {
			continue
		}
		var as []string
		if d.Tag == "alt" {
			as = append(as, "via=alt") // delivered under the alias tag name
		}
		d.Args().ForEach(func(a component_definition.ArgType, items []string) {
			as = append(as, string(a)+"="+strings.Join(items, " "))
		})
		m.seen = append(m.seen, rec{name, d.StructField.Name, d.TagVal, strings.Join(as, ";")})
		if d.Value.Kind() == reflect.String && d.Value.CanSet() {
			d.Value.SetString("custom:" + d.TagVal)
		}
		handled = append(handled, d)
	}
	if m.ReturnHandled {
		// "the properties I processed" - what the signature suggests; it says nothing about the other processors' input
		return handled, nil
	}
	return nil, nil
}

// a second user tag with its own scanner and a processor that runs after the first one
// (the second scanner is another instance of the SAME Go type, configured for another tag and named differently)
type CustomScan2 = CustomScan

func (c *CustomScan) Naming() string { return "custom-scan-" + c.id }

// one scanner instance may serve many containers of a process (a package-level processor value): every container
// gets its own definitions from it
var sharedScan, sharedScan2 = newScan(), newScan2()

func newScan2() *CustomScan2 {
	return &CustomScan2{id: "mytag2", lateTag: "mytag2", DefaultTagScanDefinitionRegistryPostProcessor: processors.DefaultTagScanDefinitionRegistryPostProcessor{NodeType: customNodeType}}
}

type CustomPP2 struct {
	processors.DefaultInstantiationAwareComponentPostProcessor
	seen []rec
}

func (m *CustomPP2) Order() int { return 200 }
func (m *CustomPP2) PostProcessAfterInstantiation(component any, componentName string) (bool, error) {
	return true, nil
}
func (m *CustomPP2) PostProcessProperties(props []*component_definition.Property, component any, name string) ([]*component_definition.Property, error) {
	for _, d := range props {
		if d.Tag == "mytag2" {
			m.seen = append(m.seen, rec{name, d.StructField.Name, d.TagVal, ""})
		}
	}
	return nil, nil
}

// ---- leaves -----------------------------------------------------------------------------------

type leaf struct {
	Name     string
	Type     reflect.Type
	Tag      string
	Exported bool
	Kind     string // wire func value prop prefix logger custom foreign none
	Want     any    // expected final value for value/prop/custom leaves (nil = not asserted absolutely)
	CVal     string
	CArgs    string
}

func (l leaf) tagged() bool {
	return l.Exported && l.Kind != "foreign" && l.Kind != "none"
}

func (l leaf) String() string {
	n := l.Name
	return fmt.Sprintf("%s %s `%s`", n, l.Type, l.Tag)
}

var (
	tIAll   = reflect.TypeOf((*zoo.IAll)(nil)).Elem()
	tIA     = reflect.TypeOf((*zoo.IA)(nil)).Elem()
	tIComp  = reflect.TypeOf((*zoo.IComp)(nil)).Elem()
	tPA     = reflect.TypeOf(&zoo.PA{})
	tLogger = reflect.TypeOf((*syslog.Logger)(nil)).Elem()
	tString = reflect.TypeOf("")
	tInt    = reflect.TypeOf(0)
	tInts   = reflect.TypeOf([]int(nil))
	tMap    = reflect.TypeOf(map[string]any(nil))
)

func genLeaf(t *rapid.T, i int) leaf {
	exported := rapid.IntRange(0, 4).Draw(t, "exported") > 0
	name := fmt.Sprintf("F%d", i)
	if !exported {
		name = fmt.Sprintf("f%d", i)
	}
	l := leaf{Name: name, Exported: exported}
	switch rapid.IntRange(0, 16).Draw(t, "leafkind") {
	case 16:
		// the second user tag: only recorded by its processor, the field itself is left alone
		l.Kind, l.Type = "custom2", tString
		l.CVal = rapid.SampledFrom([]string{"w1", "w2"}).Draw(t, "cval3")
		l.Tag = "mytag2:" + strconv.Quote(l.CVal)
	case 0:
		l.Kind, l.Type, l.Tag = "wire", tIAll, `wire:"n1"`
	case 1:
		l.Kind, l.Type, l.Tag = "wire", tPA, `wire:""`
	case 2:
		l.Kind, l.Type, l.Tag = "wire", reflect.SliceOf(tIA), `wire:""`
	case 3:
		l.Kind, l.Type, l.Tag = "func", reflect.SliceOf(tIComp), `func:"Comp,returns=a"`
	case 4:
		l.Kind, l.Type, l.Tag, l.Want = "value", tString, `value:"lit"`, "lit"
		if rapid.IntRange(0, 3).Draw(t, "dash") == 0 {
			l.Tag, l.Want = `value:"-"`, "-"
		}
	case 5:
		l.Kind, l.Type, l.Tag, l.Want = "value", tInt, `value:"42"`, 42
	case 6:
		l.Kind, l.Type, l.Tag, l.Want = "value", tInts, `value:"[1,2,3]"`, []int{1, 2, 3}
	case 7:
		l.Kind, l.Type, l.Tag, l.Want = "prop", tString, `prop:"c11.k"`, "vee"
	case 8:
		l.Kind, l.Type, l.Tag, l.Want = "prefix", tMap, `prefix:"c11.m"`, map[string]any{"x": 1}
	case 9:
		l.Kind, l.Type, l.Tag = "logger", tLogger, `logger:""`
	case 10, 11:
		l.Kind, l.Type = "custom", tString
		l.CVal = rapid.SampledFrom([]string{"v1", "v2", "a.b", "", "-"}).Draw(t, "cval") // "-" is a value like any other
		items := rapid.SampledFrom([]string{"", ",arg=x y", ",arg=[p,q] z,flag", ",required=false"}).Draw(t, "cargs")
		l.Tag = "mytag:" + strconv.Quote(l.CVal+items)
		switch rapid.IntRange(0, 3).Draw(t, "altmode") {
		case 0: // the field ALSO matches the scanner's extract handler: it must still be delivered once, as tagged
			l.Tag += ` alt:"other"`
		case 1: // only the extract handler accepts it
			l.Tag = `alt:` + strconv.Quote(l.CVal)
			items = ",via-alt"
		}
		l.Want = "custom:" + l.CVal
		l.CArgs = items
	case 15:
		// a NAMED (not embedded) untagged struct field: nothing inside it is the container's business
		l.Kind, l.Type, l.Tag = "none", reflect.TypeOf(NamedInner{}), ""
	case 14:
		// two recognised tags on one field: the value is bound first, the custom processor (Order 100) runs later and has the last word
		l.Kind, l.Type = "custom", tString
		l.CVal = rapid.SampledFrom([]string{"v1", "v2"}).Draw(t, "cval2")
		l.Tag = `value:"lit" mytag:` + strconv.Quote(l.CVal)
		l.Want = "custom:" + l.CVal
	case 12:
		l.Kind, l.Type, l.Tag = "foreign", rapid.SampledFrom([]reflect.Type{tString, tInt, tPA, tIAll}).Draw(t, "ftype"), `json:"zzz" yaml:"wire"`
	default:
		l.Kind, l.Type, l.Tag = "none", rapid.SampledFrom([]reflect.Type{tString, tInt, tPA, tIAll, tMap}).Draw(t, "ntype"), ""
	}
	return l
}

// NamedInner carries recognised tags, but is used as an ordinary named field.
type NamedInner struct {
	X string   `value:"lit"`
	W zoo.IAll `wire:"n1"`
}

var sentinelPA = &zoo.PA{PCore: zoo.PCore{B: &zoo.Beh{ID: -42}}}

func sentinelFor(t reflect.Type) reflect.Value {
	switch t {
	case tString:
		return reflect.ValueOf("§sentinel§")
	case tInt:
		return reflect.ValueOf(-777)
	case tInts:
		return reflect.ValueOf([]int{-7})
	case tMap:
		return reflect.ValueOf(map[string]any{"sentinel": true})
	case tPA:
		return reflect.ValueOf(sentinelPA)
	}
	if t.Kind() == reflect.Interface && tPA.Implements(t) {
		return reflect.ValueOf(sentinelPA)
	}
	return reflect.Zero(t)
}

func forceSet(f reflect.Value, v reflect.Value) {
	reflect.NewAt(f.Type(), unsafe.Pointer(f.UnsafeAddr())).Elem().Set(v)
}

func peek(f reflect.Value) any {
	return reflect.NewAt(f.Type(), unsafe.Pointer(f.UnsafeAddr())).Elem().Interface()
}

// ---- tree ---------------------------------------------------------------------------------------

// node: either a leaf index or an embedded struct with ordered children
type node struct {
	Leaf     int
	Children []*node
}

func (n *node) String(ls []leaf) string {
	if n.Children == nil {
		return ls[n.Leaf].Name
	}
	var s []string
	for _, c := range n.Children {
		s = append(s, c.String(ls))
	}
	return "{" + strings.Join(s, " ") + "}"
}

func (n *node) depth() int {
	if n.Children == nil {
		return 0
	}
	d := 0
	for _, c := range n.Children {
		if x := c.depth(); x > d {
			d = x
		}
	}
	return d + 1
}

// genTree partitions leaves idx[lo:hi) (keeping order) into a tree.
func genTree(t *rapid.T, idx []int, depth int) []*node {
	var out []*node
	i := 0
	for i < len(idx) {
		if depth < 5 && rapid.IntRange(0, 2).Draw(t, "embed") == 0 {
			n := rapid.IntRange(1, len(idx)-i).Draw(t, "span")
			out = append(out, &node{Leaf: -1, Children: genTree(t, idx[i:i+n], depth+1)})
			i += n
		} else {
			out = append(out, &node{Leaf: idx[i]})
			i++
		}
	}
	if out == nil {
		out = []*node{}
	}
	return out
}

var embedCounter int

func buildType(ls []leaf, children []*node, marker string) reflect.Type {
	var fs []reflect.StructField
	if marker != "" {
		fs = append(fs, reflect.StructField{Name: marker, Type: tInt})
	}
	for _, c := range children {
		if c.Children != nil {
			embedCounter++
			fs = append(fs, reflect.StructField{Name: fmt.Sprintf("E%d", embedCounter), Type: buildType(ls, c.Children, ""), Anonymous: true})
			continue
		}
		l := ls[c.Leaf]
		f := reflect.StructField{Name: l.Name, Type: l.Type, Tag: reflect.StructTag(l.Tag)}
		if !l.Exported {
			f.PkgPath = pkg
		}
		fs = append(fs, f)
	}
	return reflect.StructOf(fs)
}

// locate returns the reflect.Value of every leaf (by name) inside v.
func locate(v reflect.Value, out map[string]reflect.Value) {
	t := v.Type()
	for i := 0; i < t.NumField(); i++ {
		f := t.Field(i)
		if f.Anonymous && f.Type.Kind() == reflect.Struct {
			locate(v.Field(i), out)
			continue
		}
		out[f.Name] = v.Field(i)
	}
}

func providers() []any {
	mk := func(k int, alias, q, comp string) any {
		return zoo.ProviderKinds[k].New(&zoo.Beh{Alias: alias, Mask: q, Comp: comp})
	}
	return []any{mk(0, "", "", ""), mk(0, "n1", "", ""), mk(2, "", "g1", ""), mk(5, "", "", "a"), mk(5, "pe2", "", "b")}
}

const cfg = "c11:\n  k: vee\n  m:\n    x: 1\n"

type fataler interface{ Fatalf(string, ...any) }

func checkPair(t fataler, desc string, ls []leaf, flat, nested reflect.Value, pp *CustomPP, flatName, nestedName string) {
	fl, nl := map[string]reflect.Value{}, map[string]reflect.Value{}
	locate(flat.Elem(), fl)
	locate(nested.Elem(), nl)
	for _, l := range ls {
		a, b := peek(fl[l.Name]), peek(nl[l.Name])
		if !l.tagged() {
			want := sentinelFor(l.Type).Interface()
			for which, got := range map[string]any{"flat": a, "nested": b} {
				if !reflect.DeepEqual(got, want) {
					t.Fatalf("C11: frame violated: %s leaf %s (untagged / unexported / foreign-tagged) was modified: %v -> %v\n%s", which, l, want, got, desc)
				}
			}
			continue
		}
		switch l.Kind {
		case "logger":
			if (a == nil) != (b == nil) || a == nil {
				t.Fatalf("C11: logger leaf %s: flat=%v nested=%v (both must be set)\n%s", l, a, b, desc)
			}
		default:
			if l.Kind == "wire" || l.Kind == "func" {
				a, b = asSet(a), asSet(b) // element order of an injected slice is not part of the contract
			}
			if !reflect.DeepEqual(a, b) {
				t.Fatalf("C11: leaf %s is processed differently when embedded: flat=%v nested=%v\n%s", l, a, b, desc)
			}
			if l.Want != nil && !reflect.DeepEqual(a, l.Want) {
				t.Fatalf("C11: leaf %s holds %v, want %v\n%s", l, a, l.Want, desc)
			}
			if l.Kind == "wire" || l.Kind == "func" {
				if am := a.(map[any]int); len(am) == 0 || am[any(sentinelPA)] > 0 {
					t.Fatalf("C11: component leaf %s was not populated (holds %v)\n%s", l, a, desc)
				}
			}
		}
	}
	// recorder: exactly the custom-tagged leaves, once per consumer, with value and arguments
	want := map[rec]int{}
	for _, l := range ls {
		if l.Kind == "custom" && l.Exported {
			args := ""
			switch l.CArgs {
			case ",arg=x y":
				args = "Arg=x y"
			case ",arg=[p,q] z,flag":
				args = "Arg=[p,q] z;Flag="
			case ",required=false":
				args = "Required=false"
			case ",via-alt":
				args = "via=alt"
			}
			want[rec{flatName, l.Name, l.CVal, args}]++
			want[rec{nestedName, l.Name, l.CVal, args}]++
		}
	}
	got := map[rec]int{}
	for _, r := range pp.seen {
		if r.Comp == flatName || r.Comp == nestedName {
			got[r]++
		}
	}
	if !reflect.DeepEqual(got, want) {
		t.Fatalf("C11: custom tag processor received %v, want exactly %v\n%s", fmtRecs(got), fmtRecs(want), desc)
	}
	if pp.Second != nil {
		want2, got2 := map[rec]int{}, map[rec]int{}
		for _, l := range ls {
			if l.Kind == "custom2" && l.Exported {
				want2[rec{flatName, l.Name, l.CVal, ""}]++
				want2[rec{nestedName, l.Name, l.CVal, ""}]++
			}
		}
		for _, r := range pp.Second.seen {
			if r.Comp == flatName || r.Comp == nestedName {
				got2[r]++
			}
		}
		if !reflect.DeepEqual(got2, want2) {
			t.Fatalf("C11: the processor of the second user tag (it runs after the first one; the first returned the properties it handled: %v) received %v, want exactly %v\n%s", pp.ReturnHandled, fmtRecs(got2), fmtRecs(want2), desc)
		}
	}
}

// asSet turns a component value / slice of components into a multiset keyed by identity.
func asSet(x any) any {
	m := map[any]int{}
	v := reflect.ValueOf(x)
	if !v.IsValid() {
		return m
	}
	if v.Kind() == reflect.Slice {
		for i := 0; i < v.Len(); i++ {
			m[v.Index(i).Interface()]++
		}
		return m
	}
	if (v.Kind() == reflect.Pointer || v.Kind() == reflect.Interface) && v.IsNil() {
		return m
	}
	m[x]++
	return m
}

func fmtRecs(m map[rec]int) string {
	var s []string
	for r, n := range m {
		c := "flat"
		if strings.Contains(r.Comp, "Nested") || strings.Contains(r.Comp, "MarkN") {
			c = "nested"
		}
		s = append(s, fmt.Sprintf("%s.%s(%q,%s)x%d", c, r.Field, r.Val, r.Args, n))
	}
	sort.Strings(s)
	return strings.Join(s, " ")
}

func TestEmbedding(t *testing.T) {
	kit.Rec.Rule(rule)
	rapid.Check(t, func(t *rapid.T) {
		n := rapid.IntRange(1, 8).Draw(t, "nleaves")
		ls := make([]leaf, n)
		idx := make([]int, n)
		for i := range ls {
			ls[i] = genLeaf(t, i)
			idx[i] = i
		}
		tree := genTree(t, idx, 0)
		flatT := buildType(ls, genFlat(idx), "MarkF")
		nestT := buildType(ls, tree, "MarkN")
		flat, nested := reflect.New(flatT), reflect.New(nestT)
		for _, obj := range []reflect.Value{flat, nested} {
			m := map[string]reflect.Value{}
			locate(obj.Elem(), m)
			for _, l := range ls {
				forceSet(m[l.Name], sentinelFor(l.Type))
			}
		}
		pp := &CustomPP{ReturnHandled: rapid.Bool().Draw(t, "returnhandled"), Second: &CustomPP2{}}
		var scan, scan2 any = newScan(), newScan2()
		if rapid.Bool().Draw(t, "sharedscanners") {
			scan, scan2 = sharedScan, sharedScan2
		}
		comps := append(providers(), flat.Interface(), nested.Interface(), pp, scan, pp.Second, scan2)
		comps = rapid.Permutation(comps).Draw(t, "regorder")
		root := &node{Leaf: -1, Children: tree}
		var lss []string
		for _, l := range ls {
			lss = append(lss, l.String())
		}
		desc := fmt.Sprintf("leaves [%s] tree %s", strings.Join(lss, "; "), root.String(ls))
		out := kit.RunApp(app.SetComponents(comps...), app.SetConfigLoader(loader.NewRawLoader([]byte(cfg))))
		if !out.OK() {
			t.Fatalf("C11: start failed: %v\n%s", out, desc)
		}
		checkPair(t, desc, ls, flat, nested, pp, flatT.String(), nestT.String())
		tagged, frame := 0, 0
		for _, l := range ls {
			if l.tagged() {
				tagged++
			} else {
				frame++
			}
		}
		d := root.depth() - 1
		kit.Rec.Case(desc, d >= 2 && tagged >= 1 && frame >= 1, fmt.Sprintf("depth-%d", min(d, 5)))
	})
}

func genFlat(idx []int) []*node {
	var out []*node
	for _, i := range idx {
		out = append(out, &node{Leaf: i})
	}
	return out
}

// ---- static fixtures: embedded types whose NAME is unexported (cannot be built at run time) ----

type inner struct {
	W  zoo.IAll `wire:"n1"`
	V  string   `value:"lit"`
	M  string   `mytag:"v1,arg=x y"`
	u  string   `value:"lit"`
	No string
}

type Mid struct {
	inner
	X int `value:"42"`
}

type midLower struct {
	Mid
	L syslog.Logger `logger:""`
}

type StaticNested struct {
	midLower
	Top string `value:"lit"`
	Fg  string `json:"zzz"`
}

type StaticFlat struct {
	W   zoo.IAll `wire:"n1"`
	V   string   `value:"lit"`
	M   string   `mytag:"v1,arg=x y"`
	u   string   `value:"lit"`
	No  string
	X   int           `value:"42"`
	L   syslog.Logger `logger:""`
	Top string        `value:"lit"`
	Fg  string        `json:"zzz"`
}

func TestStaticUnexportedEmbedding(t *testing.T) {
	kit.Rec.Rule(rule)
	ls := []leaf{
		{Name: "W", Type: tIAll, Kind: "wire", Exported: true, Tag: `wire:"n1"`},
		{Name: "V", Type: tString, Kind: "value", Exported: true, Want: "lit", Tag: `value:"lit"`},
		{Name: "M", Type: tString, Kind: "custom", Exported: true, CVal: "v1", CArgs: ",arg=x y", Want: "custom:v1", Tag: `mytag`},
		{Name: "u", Type: tString, Kind: "value", Exported: false, Tag: `value:"lit"`},
		{Name: "No", Type: tString, Kind: "none", Exported: true},
		{Name: "X", Type: tInt, Kind: "value", Exported: true, Want: 42, Tag: `value:"42"`},
		{Name: "L", Type: tLogger, Kind: "logger", Exported: true, Tag: `logger`},
		{Name: "Top", Type: tString, Kind: "value", Exported: true, Want: "lit", Tag: `value:"lit"`},
		{Name: "Fg", Type: tString, Kind: "foreign", Exported: true, Tag: `json`},
	}
	for round := 0; round < 20; round++ {
		flat, nested := reflect.ValueOf(&StaticFlat{}), reflect.ValueOf(&StaticNested{})
		for _, obj := range []reflect.Value{flat, nested} {
			m := map[string]reflect.Value{}
			locate(obj.Elem(), m)
			for _, l := range ls {
				if !l.tagged() {
					forceSet(m[l.Name], sentinelFor(l.Type))
				}
			}
		}
		pp := &CustomPP{}
		scan := newScan()
		comps := append(providers(), flat.Interface(), nested.Interface(), pp, scan)
		out := kit.RunApp(app.SetComponents(comps...), app.SetConfigLoader(loader.NewRawLoader([]byte(cfg))))
		desc := "static fixture: StaticNested{midLower{Mid{inner{W V M u No} X} L} Top Fg} vs StaticFlat"
		if !out.OK() {
			t.Fatalf("C11: start failed: %v\n%s", out, desc)
		}
		d := &dumpT{}
		func() {
			defer func() {
				if r := recover(); r != nil && r != any(d) {
					panic(r)
				}
			}()
			checkPair(d, desc, ls, flat, nested, pp, pkg+"/StaticFlat", pkg+"/StaticNested")
		}()
		if d.failed {
			kit.DumpReplay("c11-static", map[string]any{"message": d.msg})
			t.Fatalf("%s", d.msg)
		}
		kit.Rec.Case(fmt.Sprintf("%s round %d", desc, round%2), true, "static-unexported-embedded")
	}
}

type dumpT struct {
	failed bool
	msg    string
}

func (d *dumpT) Fatalf(f string, a ...any) { d.failed = true; d.msg = fmt.Sprintf(f, a...); panic(d) }

// ---- the same struct type embedded twice in one component (diamond) -----------------------------

type Common struct {
	Dep zoo.IAll `wire:"n1"`
	Val string   `value:"lit"`
	Cus string   `mytag:"v1,arg=x y"`
}
type Left struct{ Common }
type Right struct {
	Common
	R int `value:"42"`
}
type Diamond struct {
	Left
	Right
	Top string `value:"lit"`
}

func TestStaticDiamondEmbedding(t *testing.T) {
	kit.Rec.Rule(rule)
	for round := 0; round < 10; round++ {
		d := &Diamond{}
		pp := &CustomPP{}
		comps := append(providers(), d, pp, newScan())
		out := kit.RunApp(app.SetComponents(comps...), app.SetConfigLoader(loader.NewRawLoader([]byte(cfg))))
		if !out.OK() {
			t.Fatalf("C11: start failed: %v", out)
		}
		for which, c := range map[string]Common{"Left.Common": d.Left.Common, "Right.Common": d.Right.Common} {
			if c.Dep == nil || c.Val != "lit" || c.Cus != "custom:v1" {
				kit.DumpReplay("c11-diamond", map[string]any{"which": which, "value": fmt.Sprintf("%+v", c)})
				t.Fatalf("C11: the copy %s of a struct type that is embedded twice was not processed like the other: %+v", which, c)
			}
		}
		if d.R != 42 || d.Top != "lit" {
			t.Fatalf("C11: fields next to the embedded copies not processed: %+v", d)
		}
		n := 0
		for _, r := range pp.seen {
			if r.Field == "Cus" && r.Val == "v1" && r.Args == "Arg=x y" {
				n++
			}
		}
		if n != 2 {
			t.Fatalf("C11: the custom tag processor received the field Cus %d times, it is declared in 2 embedded copies (%v)", n, pp.seen)
		}
		kit.Rec.Case(fmt.Sprintf("static diamond Diamond{Left{Common} Right{Common R} Top} round %d", round%2), true, "static-diamond")
	}
}

// ---- one field name at two depths; a lazy component with tagged fields ---------------------------

type ShInner struct {
	Name string   `value:"inner"`
	Dep  zoo.IAll `wire:"n1"`
	Cus  string   `mytag:"vi,arg=x y"`
}
type ShadowTagged struct {
	ShInner
	Name string `value:"outer"` // same name, shallower, other value
	Cus  string `mytag:"vo"`
}
type ShadowUntagged struct {
	ShInner
	Name string   // same name, shallower, NOT tagged: the embedded one must still be processed
	Dep  zoo.IAll // untagged: stays nil
}

type LazyTagged struct {
	definition.LazyInitComponent
	Dep zoo.IAll `wire:"n1"`
	Val string   `value:"lit"`
	Cus string   `mytag:"v1,arg=x y"`
}
type lazyDeep struct {
	definition.LazyInitComponent
}
type LazyTaggedDeep struct {
	lazyDeep
	Dep zoo.IAll `wire:"n1"`
	Val string   `value:"lit"`
}

func TestStaticShadowAndLazy(t *testing.T) {
	kit.Rec.Rule(rule)
	for round := 0; round < 10; round++ {
		st, su, lt, ld := &ShadowTagged{}, &ShadowUntagged{}, &LazyTagged{}, &LazyTaggedDeep{}
		pp := &CustomPP{}
		comps := append(providers(), st, su, lt, ld, pp, sharedScan) // the same scanner instance in every round
		out := kit.RunApp(app.SetComponents(comps...), app.SetConfigLoader(loader.NewRawLoader([]byte(cfg))))
		if !out.OK() {
			t.Fatalf("C11: start failed: %v", out)
		}
		fail := func(f string, a ...any) {
			msg := fmt.Sprintf(f, a...)
			kit.DumpReplay("c11-shadow-lazy", map[string]any{"message": msg})
			t.Fatalf("C11: %s", msg)
		}
		if st.Name != "outer" || st.ShInner.Name != "inner" || st.Cus != "custom:vo" || st.ShInner.Cus != "custom:vi" || st.ShInner.Dep == nil {
			fail("a field name used at two depths: each field must be processed by its OWN tag: %+v", *st)
		}
		if su.Name != "" || su.Dep != nil || su.ShInner.Name != "inner" || su.ShInner.Dep == nil || su.ShInner.Cus != "custom:vi" {
			fail("an untagged shallower field of the same name must neither be written nor hide the embedded tagged field: %+v", *su)
		}
		// the lazy components are demanded by a lookup after start-up
		for _, n := range []string{pkg + "/LazyTagged", pkg + "/LazyTaggedDeep"} {
			if _, err := out.App.GetComponentByName(n); err != nil {
				fail("lookup of %s failed: %v", n, err)
			}
		}
		if lt.Dep == nil || lt.Val != "lit" || lt.Cus != "custom:v1" {
			fail("a LazyInit component's tagged fields were not processed when it was demanded: %+v", *lt)
		}
		if ld.Dep == nil || ld.Val != "lit" {
			fail("a component that embeds the LazyInit marker one level down was not processed when demanded: %+v", *ld)
		}
		kit.Rec.Case(fmt.Sprintf("static shadowed names + lazy tagged components, round %d", round%2), true, "static-shadow-lazy")
	}
}

// ---- an embedded struct that names a configuration prefix of its own ----------------------------------------------
//
// CPBase has a value-receiver Prefix() (definition.ConfigurationProperties). Embedded anonymously it is seen
// through like any other embedded struct: its tagged fields are processed as if declared on the component, its
// untagged / unexported / foreign-tagged fields stay untouched - whether or not the configuration has an entry under
// that prefix. (It is not a field of the component, so it is not bound as a whole.)

type CPBase struct {
	Log syslog.Logger `logger:""`
	V   string        `value:"lit"`
	U   string
	J   string `json:"x"`
	f   int
}

func (CPBase) Prefix() string { return "c11.cp" }

type CPDirect struct {
	Log syslog.Logger `logger:""`
	V   string        `value:"lit"`
	U   string
	J   string `json:"x"`
	f   int
}
type CPEmbed1 struct {
	CPBase
	Own string `value:"own"`
}
type CPMid struct{ CPBase }
type CPMid2 struct{ CPMid }
type CPEmbed3 struct {
	CPMid2
	Own string `value:"own"`
}

func TestStaticEmbeddedPrefixed(t *testing.T) {
	kit.Rec.Rule(rule)
	for _, withEntry := range []bool{false, true} {
		d, e1, e3 := &CPDirect{U: "keep", J: "keep", f: 7}, &CPEmbed1{}, &CPEmbed3{}
		e1.U, e1.J, e1.f = "keep", "keep", 7
		e3.U, e3.J, e3.f = "keep", "keep", 7
		doc := cfg
		if withEntry {
			doc += "  cp:\n    v: from-config\n    u: from-config\n    j: from-config\n    log: nope\n"
		}
		out := kit.RunApp(app.SetComponents(d, e1, e3), app.SetConfigLoader(loader.NewRawLoader([]byte(doc))))
		fail := func(f string, a ...any) {
			msg := fmt.Sprintf(f, a...)
			kit.DumpReplay("c11-embedded-prefixed", map[string]any{"message": msg, "entry_under_prefix": withEntry})
			t.Fatalf("C11: %s (configuration entry under the prefix: %v)", msg, withEntry)
		}
		if !out.OK() {
			fail("start failed: %v", out)
		}
		if d.Log == nil || d.V != "lit" || d.U != "keep" || d.J != "keep" || d.f != 7 {
			fail("reference component with the fields declared directly: %+v", *d)
		}
		for name, b := range map[string]*CPBase{"one level": &e1.CPBase, "three levels": &e3.CPBase} {
			if b.Log == nil || b.V != "lit" {
				fail("embedded %s down, tagged fields are not processed as when declared directly: Log=%v V=%q", name, b.Log, b.V)
			}
			if b.U != "keep" || b.J != "keep" || b.f != 7 {
				fail("embedded %s down, untagged / foreign-tagged / unexported fields were modified: U=%q J=%q f=%d", name, b.U, b.J, b.f)
			}
		}
		if e1.Own != "own" || e3.Own != "own" {
			fail("the components' own fields: %q %q", e1.Own, e3.Own)
		}
		kit.Rec.Case(fmt.Sprintf("embedded struct with a Prefix() of its own, entry=%v", withEntry), true, "embedded-configuration-properties")
	}
}

// ---- a middle level that consists of embedded helper structs only (all with unexported type names) ---------------

type depsH struct {
	Dep zoo.IAll `wire:"n1"`
	Cus string   `mytag:"vh,arg=x y"`
}
type confH struct {
	Val string `value:"lit"`
}
type midOnlyEmbedded struct {
	depsH
	confH
}
type DeepHelpers struct {
	midOnlyEmbedded
	Own string `value:"own"`
}

func TestStaticHelperLevels(t *testing.T) {
	kit.Rec.Rule(rule)
	d := &DeepHelpers{}
	pp := &CustomPP{}
	comps := append(providers(), d, pp, newScan())
	out := kit.RunApp(app.SetComponents(comps...), app.SetConfigLoader(loader.NewRawLoader([]byte(cfg))))
	if !out.OK() {
		t.Fatalf("C11: start failed: %v", out)
	}
	if d.Dep == nil || d.Val != "lit" || d.Cus != "custom:vh" || d.Own != "own" {
		kit.DumpReplay("c11-helper-levels", map[string]any{"component": fmt.Sprintf("%+v", *d)})
		t.Fatalf("C11: tagged fields two levels down, below a level that only embeds helper structs (unexported type names), are not processed as when declared directly: %+v", *d)
	}
	n := 0
	for _, r := range pp.seen {
		if r.Field == "Cus" && r.Val == "vh" && r.Args == "Arg=x y" {
			n++
		}
	}
	if n != 1 {
		t.Fatalf("C11: the custom tag processor received the deep field %d times (records %v)", n, pp.seen)
	}
	kit.Rec.Case("middle level of embedded helper structs only", true, "helper-levels")
	kit.Rec.Case("middle level of embedded helper structs only (custom tag delivered)", true, "helper-levels")
}
