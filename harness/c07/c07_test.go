package c07

import (
	"fmt"
	"reflect"
	"strings"
	"testing"

	"github.com/go-kid/ioc/app"
	"github.com/go-kid/ioc/configure/loader"
	"pgregory.net/rapid"
	"verif/harness/graph"
	"verif/harness/kit"
	"verif/harness/model"
	"verif/harness/pop"
	"verif/harness/zoo"
)

func TestMain(m *testing.M) { kit.Main(m) }

const rule = "providers with custom / default / empty-custom names (several per type) x consumers whose single-valued fields (*T, interface, any) request a name that is present+compatible, absent, present+incompatible or a default package/type name, required or optional, pre-filled with a sentinel, next to other fields; plus duplicate-name registration attempts; oracle: compatible -> exactly that component, otherwise error iff required and sentinel untouched when optional; non-trivial = the named point has >=2 providers assignable to its type, or takes the absent / incompatible branch; distinct by scenario shape; since rounds 7/8 also the spellings ',required' / '=true' / '=yes' (only required=false makes a point optional), lazy nodes populated after another container started, and a named cycle decorated after initialization"

var kinds = []int{0, 0, 1, 2, 3, 5, 7, 8, 11, 11, 11, 12, 16, 16, 17, 17, 18, 22, 22, 23, 23} // 16 = PNE (by-name points inside an unexported embedded struct); 17, 18 = PA, PB of ANOTHER package that is also called zoo
var names = []string{"n1", "n2", "n3", "n4", "n5"}

const zooPkg = "verif/harness/zoo/"

var defaultNames = []string{zooPkg + "PA", zooPkg + "PA2", zooPkg + "PB", zooPkg + "PC", zooPkg + "PE", zooPkg + "PG", zooPkg + "PH", "github.com/go-kid/ioc/app/App", "PA", "zoo/PA", "verif/harness/alt/zoo/PA", "verif/harness/alt/zoo/PB"}

func genNamedField(t *rapid.T, provs []pop.ProvSpec) pop.FieldSpec {
	typ := pop.DrawFieldType(t, provs, false)
	var name string
	switch rapid.IntRange(0, 7).Draw(t, "namekind") {
	case 0:
		name = rapid.SampledFrom(names).Draw(t, "name")
	case 3, 4, 5, 6, 7:
		// the name of an existing provider; half of the time one that fits the field type
		p := rapid.SampledFrom(provs).Draw(t, "target")
		name = pop.RegisteredName(p)
		if rapid.Bool().Draw(t, "fitname") {
			typ = rapid.SampledFrom(pop.CompatibleSingles(p.Kind)).Draw(t, "ftype")
		}
	case 2:
		name = rapid.SampledFrom(defaultNames).Draw(t, "dname")
	default:
		name = rapid.SampledFrom([]string{"nosuch", "N1", "n1 ", "n"}).Draw(t, "absent")
	}
	// only an explicit required=false makes a point optional: the bare flag and other spellings leave it required
	opt := rapid.SampledFrom([]string{"", "", ",required=false", ",required=false", ",required=false", ",required", ",required=true", ",required=yes"}).Draw(t, "optional")
	// now and then the name is not written literally but comes out of a placeholder
	if !strings.ContainsAny(name, " /") && name == strings.ToLower(name) && rapid.IntRange(0, 3).Draw(t, "viaplaceholder") == 0 {
		if rapid.Bool().Draw(t, "viadefault") {
			name = "${c07.absent:" + name + "}"
		} else {
			name = "${c07.name." + name + "}"
		}
	}
	return pop.FieldSpec{Type: typ, Tag: fmt.Sprintf(`wire:"%s%s"`, name, opt)}
}

// c07.name.<x> is configured as <x> for every pool name; resolveName is the reference substitution.
var nameCfg = func() []byte {
	var sb strings.Builder
	sb.WriteString("c07:\n  name:\n")
	for _, n := range append(append([]string{}, names...), "nosuch", "n") {
		sb.WriteString("    " + n + ": " + n + "\n")
	}
	return []byte(sb.String())
}()

func resolveName(s string) string {
	if strings.HasPrefix(s, "${c07.absent:") && strings.HasSuffix(s, "}") {
		return s[len("${c07.absent:") : len(s)-1]
	}
	if strings.HasPrefix(s, "${c07.name.") && strings.HasSuffix(s, "}") {
		return s[len("${c07.name.") : len(s)-1]
	}
	return s
}

// sentinel returns an unregistered object assignable to t.
func sentinel(t reflect.Type) reflect.Value {
	if t.Kind() == reflect.Pointer {
		return reflect.New(t.Elem())
	}
	for _, k := range zoo.ProviderKinds {
		c := reflect.ValueOf(k.New(&zoo.Beh{ID: -99}))
		if c.Type().AssignableTo(t) {
			return c
		}
	}
	panic("no sentinel for " + t.String())
}

func TestByName(t *testing.T) {
	kit.Rec.Rule(rule)
	model.ResolveTagValue = resolveName
	rapid.Check(t, func(t *rapid.T) {
		s := &pop.Scenario{}
		s.Provs = pop.GenProviders(t, pop.ProvOpts{Kinds: kinds, Min: 1, Max: 7, Quals: []string{"g1"}, Comps: []string{"a"}, Names: names})
		nc := rapid.IntRange(1, 2).Draw(t, "ncons")
		for k := 0; k < nc; k++ {
			nf := rapid.IntRange(1, 4).Draw(t, "nfields")
			var c pop.ConsSpec
			for i := 0; i < nf; i++ {
				if rapid.IntRange(0, 4).Draw(t, "other") == 0 {
					// an unrelated by-type optional field next to the named ones
					c.Fields = append(c.Fields, pop.FieldSpec{Type: rapid.SampledFrom(pop.SingleTypes).Draw(t, "otype"), Tag: `wire:",required=false"`})
				} else {
					c.Fields = append(c.Fields, genNamedField(t, s.Provs))
				}
			}
			for nd := rapid.SampledFrom([]int{0, 0, 1, 2}).Draw(t, "ndecoys"); nd > 0; nd-- {
				pos := rapid.IntRange(0, len(c.Fields)).Draw(t, "decoypos")
				df := pop.DrawDecoyField(t)
				if strings.Contains(df.Type, "by-name") {
					df = pop.FieldSpec{Type: "decoy:literal-int", Tag: `value:"7"`} // named points are this test's own subject (sentinels)
				}
				c.Fields = append(c.Fields[:pos], append([]pop.FieldSpec{df}, c.Fields[pos:]...)...)
			}
			s.Cons = append(s.Cons, c)
		}
		s.Finish(t)
		in := s.Instantiate()
		switch rapid.IntRange(0, 3).Draw(t, "observer") {
		case 0: // observing post-processors sorted in front of the built-in wiring processors
			in.Extra = append(in.Extra, &graph.PriorityObsPP{ObsPP: graph.ObsPP{Tag: "c07p", Log: in.Log, NoBudget: true}})
		case 1:
			in.Extra = append(in.Extra, &graph.OrderedObsPP{ObsPP: graph.ObsPP{Tag: "c07o", Log: in.Log, OrderV: 1, NoBudget: true}})
		}
		// pre-fill every named field with a sentinel
		sent := map[uintptr]map[int]any{}
		for k, c := range s.Cons {
			obj := reflect.ValueOf(in.Comps[s.ConsumerIndex(k)])
			sent[obj.Pointer()] = map[int]any{}
			for i, f := range c.Fields {
				v, _ := model.ParseTag(reflect.StructTag(f.Tag).Get("wire"))
				if v == "" {
					continue
				}
				sv := sentinel(pop.Types[f.Type])
				obj.Elem().Field(i + 1).Set(sv)
				sent[obj.Pointer()][i+1] = sv.Interface()
			}
		}
		in.Run(app.SetConfigLoader(loader.NewRawLoader(nameCfg)))
		desc := s.Shape()
		if in.Out.Panic != nil {
			t.Fatalf("C07: start-up panicked: %v\nscenario: %s", in.Out.Panic, desc)
		}
		g := in.G
		// naming rule: every scenario component is registered under custom name, else package/type
		regd := in.Out.App.GetRegisteredComponents()
		for _, c := range in.Comps {
			n, _ := model.NameOf(c)
			if regd[n] != c {
				t.Fatalf("C07: component %T is not registered under its name %q (registered names: %v)", c, n, keys(regd))
			}
		}
		verdict := g.WiringVerdict()
		switch verdict {
		case model.MustSucceed:
			if in.Out.Err != nil {
				t.Fatalf("C07: all required named points resolve, yet start-up failed: %v\nscenario: %s", in.Out, desc)
			}
		case model.MustFail:
			if in.Out.Err == nil {
				un, _ := g.Unsatisfied()
				t.Fatalf("C07: required point(s) %v name no compatible component, yet start-up succeeded\nscenario: %s", un, desc)
			}
		}
		labels := []string{"verdict/" + verdict.String()}
		nt := false
		must, _ := g.Created()
		for id := range in.Comps {
			c := in.Comp(id)
			if !must[c] {
				continue
			}
			for _, p := range g.Points[c] {
				if p.Val == "" || p.Tag != "wire" {
					continue
				}
				// classify
				assignable := 0
				for _, o := range g.Pop {
					if o.Typ.AssignableTo(p.Field.Type) && o != c {
						assignable++
					}
				}
				nameExists := g.ByName[p.Val] != nil
				switch {
				case len(p.Cands) == 1 && assignable >= 2:
					nt = true
					labels = append(labels, "named-among-several")
				case len(p.Cands) == 1:
					labels = append(labels, "named-sole")
				case nameExists:
					nt = true
					labels = append(labels, "incompatible")
				default:
					nt = true
					labels = append(labels, "absent")
				}
				if in.Out.Err != nil {
					continue
				}
				got := p.FieldValue()
				var gotObj any
				if !got.IsNil() {
					gotObj = got.Interface()
				}
				if len(p.Cands) == 1 {
					if gotObj != p.Cands[0].Obj {
						t.Fatalf("C07: %v must hold exactly the component named %q, holds %T %v\nscenario: %s", p, p.Val, gotObj, gotObj, desc)
					}
				} else {
					var want any // providers' own fields start out nil
					if m := sent[c.Ptr]; m != nil {
						want = m[p.Path[0]]
					}
					if gotObj != want {
						t.Fatalf("C07: optional point %v names no compatible component and must stay untouched (sentinel %p), holds %T %v\nscenario: %s", p, want, gotObj, gotObj, desc)
					}
				}
			}
		}
		if in.Out.Err == nil {
			for k, c := range s.Cons {
				if err := pop.CheckDecoys(in.Comps[s.ConsumerIndex(k)], c); err != nil {
					t.Fatalf("C07: %v\nscenario: %s", err, desc)
				}
			}
		}
		kit.Rec.Case(desc, nt, dedup(labels)...)
	})
}

// TestDuplicateNames: two distinct components claiming one name.
func TestDuplicateNames(t *testing.T) {
	kit.Rec.Rule(rule)
	rapid.Check(t, func(t *rapid.T) {
		dupKinds := []int{0, 1, 2, 3, 5, 7, 8, 11} // no kinds with required points of their own
		k1 := rapid.SampledFrom(dupKinds).Draw(t, "k1")
		k2 := rapid.SampledFrom(dupKinds).Draw(t, "k2")
		mode := rapid.IntRange(0, 2).Draw(t, "mode")
		var a1, a2 string
		switch mode {
		case 0: // same alias
			a1 = rapid.SampledFrom(names).Draw(t, "alias")
			a2 = a1
		case 1: // alias equal to the other's default name
			a1 = ""
			a2 = zooPkg + zoo.ProviderKinds[k1].Name
		default: // two unnamed instances of one type
			k2 = k1
		}
		c1 := zoo.ProviderKinds[k1].New(&zoo.Beh{ID: 0, Alias: a1, Mask: "g1"})
		c2 := zoo.ProviderKinds[k2].New(&zoo.Beh{ID: 1, Alias: a2, Mask: "g1"})
		// a consumer that collects everything
		cons := reflect.New(pop.ConsumerType(0, pop.ConsSpec{Fields: []pop.FieldSpec{{Type: "[]IAll", Tag: `wire:",required=false"`}}}))
		comps := []any{c1, c2, cons.Interface()}
		comps = rapid.Permutation(comps).Draw(t, "order")
		same := rapid.IntRange(0, 3).Draw(t, "same") == 0
		if same {
			// registering the very same object twice is allowed
			comps = append(comps, comps[0])
			c2 = nil
		}
		desc := fmt.Sprintf("dup mode=%d %s(%q) %s(%q) same=%v", mode, zoo.ProviderKinds[k1].Name, a1, zoo.ProviderKinds[k2].Name, a2, same)
		var out kit.Outcome
		if same {
			out = kit.RunApp(app.SetComponents(comps[0], comps[len(comps)-1], cons.Interface()))
			if !out.OK() {
				t.Fatalf("C07: registering the same object twice must be harmless, got %v (%s)", out, desc)
			}
			kit.Rec.Case(desc, false, "same-object-twice")
			return
		}
		out = kit.RunApp(app.SetComponents(comps...))
		if out.OK() {
			// tolerated only if one of the two is simply not there
			n, _ := model.NameOf(c1)
			got, _ := out.App.GetComponentByName(n)
			all := cons.Elem().Field(1)
			seen := map[any]bool{}
			for i := 0; i < all.Len(); i++ {
				seen[all.Index(i).Interface()] = true
			}
			if seen[c1] && seen[c2] {
				t.Fatalf("C07: two distinct components are both live under the one name %q (lookup returns %T %p)\n%s", n, got, got, desc)
			}
			kit.Rec.Case(desc, true, "duplicate-dropped")
			return
		}
		kit.Rec.Case(desc, true, "duplicate-rejected")
	})
}

func keys(m map[string]any) []string {
	var k []string
	for n := range m {
		k = append(k, n)
	}
	return k
}

func dedup(xs []string) []string {
	m := map[string]bool{}
	var out []string
	for _, x := range xs {
		if !m[x] {
			m[x] = true
			out = append(out, x)
		}
	}
	return out
}

var _ = graph.CheckWiring

// TestNamedCreationFails: the named component exists and fits, but its creation fails (Init error):
// start-up must fail - for an optional point too (the component is there, it just cannot be built).
func TestNamedCreationFails(t *testing.T) {
	kit.Rec.Rule(rule)
	model.ResolveTagValue = resolveName
	rapid.Check(t, func(t *rapid.T) {
		hi := rapid.IntRange(0, 5).Draw(t, "holder")
		ti := (hi + rapid.IntRange(1, 5).Draw(t, "target")) % 6
		mode := rapid.SampledFrom([]int{zoo.FailAlways, zoo.FailOnce}).Draw(t, "mode")
		s := &graph.Scenario{Nodes: []graph.NodeSpec{
			{Idx: hi, Variant: 'N'}, // holder: BN INode `wire:"t<hi>,required=false"`
			{Idx: ti, Variant: rapid.SampledFrom([]byte{'L', 'N'}).Draw(t, "tvariant"), Alias: fmt.Sprintf("t%d", hi), FailInit: mode},
		}}
		graph.DrawOrders(t, s)
		in := s.Instantiate()
		in.Run()
		desc := "named-creation-fails " + s.Shape()
		if in.Out.Panic != nil {
			t.Fatalf("C07: panic %v\n%s", in.Out.Panic, desc)
		}
		holder := reflect.ValueOf(in.Comps[0]).Elem().FieldByName("BN")
		if in.Out.Err == nil {
			// only acceptable when the target was (re)built successfully and the holder got it
			if holder.IsNil() || holder.Interface() != in.Comps[1] {
				t.Fatalf("C07: the component named %q is registered and assignable, its creation failed, yet start-up succeeded with the optional by-name point left empty\n%s", s.Nodes[1].Alias, desc)
			}
			if in.Behs[1].InitCalls < 2 {
				t.Fatalf("C07: start-up succeeded although the named component never initialised successfully\n%s", desc)
			}
		}
		kit.Rec.Case(desc, true, "named-target-creation-fails")
	})
}

// TestLazyAfterOtherContainer: lazy components are populated after ANOTHER container of this process has started
// (same types, partly the same names): they are wired from their own container, completely.
func TestLazyAfterOtherContainer(t *testing.T) {
	kit.Rec.Rule(rule)
	rapid.Check(t, func(t *rapid.T) {
		desc, labels, nt := graph.LazyAfterOther(t, "C07", false)
		kit.Rec.Case(desc, nt, labels...)
	})
}

// ---- a named component on a cycle that a plain post-processor decorates after initialization ---------------------

// Every point that names "nc-account" - and the lookup of that name - receives ONE object: the component registered
// under the name as the container publishes it. (Either that, or the start is refused.)
type NCAccount struct {
	Ledger any `wire:"nc-ledger"`
}
type NCLedger struct {
	Account any `wire:"nc-account"`
}
type NCAudit struct {
	Account any `wire:"nc-account"`
	Ledger  any `wire:"nc-ledger"`
}
type NCDeco struct{ Target any }

func (*NCAccount) Naming() string { return "nc-account" }
func (*NCLedger) Naming() string  { return "nc-ledger" }
func (*NCAudit) Naming() string   { return "nc-z-audit" }

type ncDecoPP struct{ target string }

func (*ncDecoPP) PostProcessBeforeInitialization(c any, n string) (any, error) { return c, nil }
func (p *ncDecoPP) PostProcessAfterInitialization(c any, n string) (any, error) {
	if n == p.target {
		return &NCDeco{Target: c}, nil
	}
	return c, nil
}

func TestStaticNamedCycleDecorated(t *testing.T) {
	kit.Rec.Rule(rule)
	for _, target := range []string{"nc-account", "nc-ledger", "nc-z-audit", ""} {
		a, l, au := &NCAccount{}, &NCLedger{}, &NCAudit{}
		comps := []any{a, l, au}
		if target != "" {
			comps = append(comps, &ncDecoPP{target: target})
		}
		out := kit.RunApp(app.SetComponents(comps...))
		desc := fmt.Sprintf("nc-account <-> nc-ledger by name, nc-z-audit names both; decorated after initialization: %q", target)
		if out.Panic != nil {
			t.Fatalf("C07: start-up panicked: %v (%s)", out.Panic, desc)
		}
		if out.Err != nil {
			kit.Rec.Case(desc, true, "named-cycle-decorated", "refused")
			continue
		}
		acc, _ := out.App.GetComponentByName("nc-account")
		led, _ := out.App.GetComponentByName("nc-ledger")
		for _, x := range []struct {
			point     string
			got, want any
		}{
			{`nc-ledger.Account wire:"nc-account"`, l.Account, acc}, {`nc-z-audit.Account wire:"nc-account"`, au.Account, acc},
			{`nc-account.Ledger wire:"nc-ledger"`, a.Ledger, led}, {`nc-z-audit.Ledger wire:"nc-ledger"`, au.Ledger, led},
		} {
			if x.got != x.want {
				kit.DumpReplay("c07-named-cycle-decorated", map[string]any{"scenario": desc, "point": x.point, "holds": fmt.Sprintf("%T %p", x.got, x.got), "registered_under_the_name": fmt.Sprintf("%T %p", x.want, x.want)})
				t.Fatalf("C07: %s holds %T %p, the component registered under that name is %T %p (%s)", x.point, x.got, x.got, x.want, x.want, desc)
			}
		}
		kit.Rec.Case(desc, true, "named-cycle-decorated", "started")
	}
}
