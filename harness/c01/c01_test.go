package c01

import (
	"fmt"
	"reflect"
	"sort"
	"strings"
	"testing"

	"github.com/go-kid/ioc/container"
	"pgregory.net/rapid"
	"verif/harness/graph"
	"verif/harness/kit"
	"verif/harness/model"
	"verif/harness/zoo"
)

func TestMain(m *testing.M) { kit.Main(m) }

const rule = "node-family scenarios (2-6 nodes, arbitrary digraph through qualifier masks, ring/group/by-name edges, eager/lazy/primary variants, optional consistent early-wrapping post-processor, drawn registration and registry-enumeration orders); non-trivial = start succeeded and some component is held by >=2 distinct holders or by a holder on a cycle with it; distinct by scenario shape"

// checkIdentity is the C01 oracle. Returns labels and whether the case is non-trivial.
func checkIdentity(in *graph.Instance, wrap *graph.WrapPP) (labels []string, nontrivial bool, err error) {
	g := in.G
	type sight struct {
		holder string
		field  string
		obj    any
	}
	seen := map[string][]sight{} // target name -> sightings
	holders := map[string]map[string]bool{}
	for _, c := range g.Pop {
		for _, p := range g.Points[c] {
			for _, s := range graph.Observe(g, p) {
				if s.Raw == nil {
					return nil, false, fmt.Errorf("%v holds a nil element", p)
				}
				tn := s.TargetName(g)
				if tn == "" {
					return nil, false, fmt.Errorf("%v holds a foreign object %T %v (neither a registered component nor a harness wrapper)", p, s.Raw, s.Raw)
				}
				seen[tn] = append(seen[tn], sight{c.Name, p.Field.Name, s.Raw})
				if holders[tn] == nil {
					holders[tn] = map[string]bool{}
				}
				holders[tn][c.Name] = true
			}
		}
	}
	// by-name lookups (also creates lazies that nobody needed: legitimate)
	lookup := map[string]any{}
	lookupFailed := false
	for _, c := range g.Pop {
		var got any
		var lerr error
		if p := kit.Protect(func() { got, lerr = in.Out.App.GetComponentByName(c.Name) }); p != nil {
			// creating a lazy component after start-up blew up: not an identity question (C07/C09 cover it)
			labels = append(labels, "lookup-panicked")
			lookupFailed = true
			break
		}
		if lerr != nil {
			// a lazy component that cannot be created is not C01's business. Stop looking things up:
			// any further lookup may implicitly re-attempt the refused creation (known finding
			// C03/retry-after-refused-lazy-creation), which is excluded here by construction.
			kit.Rec.Exclude("retry-after-refused-lazy-creation")
			lookupFailed = true
			break
		}
		lookup[c.Name] = got
		tn := ""
		if w, ok := got.(*zoo.W); ok {
			if t := g.Find(w.Target); t != nil {
				tn = t.Name
			}
		} else if t := g.Find(got); t != nil {
			tn = t.Name
		}
		if tn != c.Name {
			return nil, false, fmt.Errorf("GetComponentByName(%q) returned %T %v which is not a version of that component", c.Name, got, got)
		}
	}
	names := make([]string, 0, len(seen))
	for n := range seen {
		names = append(names, n)
	}
	sort.Strings(names)
	for _, n := range names {
		ss := seen[n]
		ref, hasRef := lookup[n]
		if !hasRef {
			ref = ss[0].obj
		}
		for _, s := range ss {
			if s.obj != ref {
				return nil, false, fmt.Errorf("component %q: %s.%s holds %v but the lookup / another holder sees %v (two versions of one singleton)", n, s.holder, s.field, s.obj, ref)
			}
		}
		if wrap == nil {
			if _, isW := ref.(*zoo.W); isW {
				return nil, false, fmt.Errorf("component %q is a wrapper although nothing wraps", n)
			}
		}
	}
	// a second wrapper for one target would be a second version even if nobody holds it... only if visible: checked above.
	// GetComponents must agree with the lookups
	var all []any
	var aerr error
	if lookupFailed {
		aerr = fmt.Errorf("skipped")
	} else if p := kit.Protect(func() { all, aerr = in.Out.App.GetComponents() }); p != nil {
		labels = append(labels, "getcomponents-panicked")
		aerr = fmt.Errorf("panic")
	}
	if aerr == nil {
		inLookup := map[any]bool{}
		for _, v := range lookup {
			inLookup[v] = true
		}
		for _, c := range all {
			if !inLookup[c] {
				return nil, false, fmt.Errorf("GetComponents returned %T %v which no by-name lookup returns", c, c)
			}
		}
	}
	// looking a component up again returns the very same object
	if !lookupFailed {
		for n, first := range lookup {
			var again any
			var aerr2 error
			if p := kit.Protect(func() { again, aerr2 = in.Out.App.GetComponentByName(n) }); p == nil && aerr2 == nil && again != first {
				return nil, false, fmt.Errorf("GetComponentByName(%q) returned %v first and %v on the second call", n, first, again)
			}
		}
	}
	// typed lookups through the public query options must return the same objects, completely
	if !lookupFailed {
		var nodes []any
		var nerr error
		if p := kit.Protect(func() {
			nodes, nerr = in.Out.App.GetComponents(container.InterfaceType(reflect.TypeOf((*zoo.INode)(nil)).Elem()))
		}); p == nil && nerr == nil {
			want := 0
			for _, c := range g.Pop {
				if _, ok := c.Obj.(zoo.INode); ok {
					want++
				}
			}
			if len(nodes) != want {
				return nil, false, fmt.Errorf("GetComponents(InterfaceType(INode)) returned %d components, %d registered components implement it", len(nodes), want)
			}
			inLookup := map[any]bool{}
			for _, v := range lookup {
				inLookup[v] = true
			}
			for _, n := range nodes {
				if !inLookup[n] {
					return nil, false, fmt.Errorf("GetComponents(InterfaceType(INode)) returned %T %v which no by-name lookup returns", n, n)
				}
			}
		}
	}
	// labels / non-triviality
	reach := g.Reach()
	for n, hs := range holders {
		t := g.ByName[n]
		if len(hs) >= 2 {
			nontrivial = true
			labels = append(labels, "diamond/fan-in")
		}
		for h := range hs {
			hc := g.ByName[h]
			if t != nil && hc != nil && reach[t][hc] {
				nontrivial = true
				labels = append(labels, "held-on-cycle")
			}
		}
	}
	return dedup(labels), nontrivial, nil
}

func dedup(xs []string) []string {
	m := map[string]bool{}
	var out []string
	for _, x := range xs {
		if !m[x] {
			m[x] = true
			out = append(out, x)
		}
	}
	sort.Strings(out)
	return out
}

func runCase(t interface {
	Fatalf(string, ...any)
}, s *graph.Scenario, wrapNames map[int]bool, plans map[int]graph.WrapPlan) {
	in := s.Instantiate()
	var wrap *graph.WrapPP
	if len(wrapNames) > 0 || len(plans) > 0 {
		wrap = &graph.WrapPP{Plan: map[string]graph.WrapPlan{}, IDOf: func(c any) int {
			if id, ok := in.IDs[reflect.ValueOf(c).Pointer()]; ok {
				return id
			}
			return -1
		}}
		for id := range wrapNames {
			n, _ := model.NameOf(in.Comps[id])
			wrap.Plan[n] = graph.WrapPlan{Early: graph.WrapNew}
		}
		for id, pl := range plans {
			n, _ := model.NameOf(in.Comps[id])
			wrap.Plan[n] = pl
		}
		in.Extra = append(in.Extra, wrap)
	}
	in.Run()
	desc := s.Shape()
	if wrap != nil {
		var w []string
		for id := range wrapNames {
			w = append(w, fmt.Sprint(id))
		}
		sort.Strings(w)
		desc += " earlywrap=" + strings.Join(w, ",")
		var ps []string
		for id, pl := range plans {
			ps = append(ps, fmt.Sprintf("%d:%v", id, pl))
		}
		sort.Strings(ps)
		desc += " plans=" + strings.Join(ps, ",")
	}
	if in.Out.Panic != nil {
		if _, ok := in.Out.Panic.(graph.BudgetExceeded); ok {
			t.Fatalf("start-up did not terminate within budget: %v\nscenario: %s", in.Out.Panic, desc)
		}
	}
	if !in.Out.OK() {
		kit.Rec.Case(desc, false, "start-failed")
		return
	}
	labels, nt, err := checkIdentity(in, wrap)
	if err != nil {
		t.Fatalf("C01 identity violated: %v\nscenario: %s\nreg order %v ordmode=%d", err, desc, s.RegPerm, s.OrdMode)
	}
	if wrap != nil {
		for n, ws := range wrap.Wrapped {
			if len(ws) > 0 {
				labels = append(labels, "early-wrap-happened")
				_ = n
				break
			}
		}
	}
	for _, n := range s.Nodes {
		if n.Variant == 'L' {
			labels = append(labels, "has-lazy")
			break
		}
	}
	kit.Rec.Case(desc, nt, labels...)
}

func TestIdentity(t *testing.T) {
	kit.Rec.Rule(rule)
	rapid.Check(t, func(t *rapid.T) {
		s := graph.Gen(t, graph.GenOpts{MinNodes: 2, MaxNodes: 6, Variants: "NNLPEUH", Aliases: true, Lookups: true, Twins: true, Alt: true})
		wrapNames := map[int]bool{}
		plans := map[int]graph.WrapPlan{}
		switch rapid.IntRange(0, 2).Draw(t, "wrapmode") {
		case 1: // consistent early wrapping: start-up is expected to succeed with the wrapper everywhere
			for i, n := range s.Nodes {
				// a *T field cannot hold a substitute: only wrap nodes nobody can reference by pointer type
				if n.Variant != 'N' && rapid.Bool().Draw(t, "wrap") {
					wrapNames[i] = true
				}
			}
		case 2: // arbitrary wrap timings: start-up may refuse, but if it succeeds identity must hold
			for i, n := range s.Nodes {
				if n.Variant != 'N' && rapid.Bool().Draw(t, "wrap") {
					plans[i] = graph.WrapPlan{Early: rapid.IntRange(0, 1).Draw(t, "e"), Before: rapid.SampledFrom([]int{0, 0, 1}).Draw(t, "b"), After: rapid.IntRange(0, 3).Draw(t, "a"), Inst: rapid.SampledFrom([]int{0, 0, 0, 1}).Draw(t, "inst")}
				}
			}
		}
		runCase(t, s, wrapNames, plans)
	})
}

// TestScale: induced subgraphs of the 200-node family (rings, skip links, dense fan-in).
func TestScale(t *testing.T) {
	kit.Rec.Rule(rule)
	rapid.Check(t, func(t *rapid.T) {
		s := &graph.Scenario{}
		switch rapid.IntRange(0, 2).Draw(t, "kind") {
		case 0: // full ring
			for i := 0; i < zoo.ZN; i++ {
				s.Z = append(s.Z, i)
			}
		case 1: // contiguous arc
			n := rapid.IntRange(20, 199).Draw(t, "n")
			o := rapid.IntRange(0, 199).Draw(t, "o")
			for i := 0; i < n; i++ {
				s.Z = append(s.Z, (o+i)%zoo.ZN)
			}
		default: // random subset
			for i := 0; i < zoo.ZN; i++ {
				if rapid.IntRange(0, 2).Draw(t, "in") > 0 {
					s.Z = append(s.Z, i)
				}
			}
		}
		drawZPar(t, s)
		graph.DrawOrders(t, s)
		runCase(t, s, nil, nil)
	})
}


// drawZPar gives every scale-family node a drawn "parent": the node is held by the qualified slice of that
// Z type if it is registered - data-driven edges (random functional graphs: long chains, trees, big cycles)
// on top of the family's static ring / skip / fan-in edges.
func drawZPar(t *rapid.T, s *graph.Scenario) {
	s.ZPar = make([]int, len(s.Z))
	for i := range s.ZPar {
		if rapid.IntRange(0, 3).Draw(t, "haspar") == 0 {
			s.ZPar[i] = -1
		} else {
			s.ZPar[i] = s.Z[rapid.IntRange(0, len(s.Z)-1).Draw(t, "par")]
		}
	}
}

// TestPostStartHistory: a multi-step history after a successful start. Mostly lazy components, some of
// them failing their first initialisation; the history draws by-name lookups (repeated, also of failed
// names), typed lookups and full enumerations. After EVERY step: a name that was handed out once keeps
// returning the same object, nobody holds a second version, wiring stays admissible and duplicate free,
// and every component that never failed was initialised at most once.
func TestPostStartHistory(t *testing.T) {
	kit.Rec.Rule(rule)
	rapid.Check(t, func(t *rapid.T) {
		s := graph.Gen(t, graph.GenOpts{MinNodes: 3, MaxNodes: 6, Variants: "LLLNE", Aliases: true})
		for i := range s.Nodes {
			if s.Nodes[i].Variant == 'L' && rapid.IntRange(0, 4).Draw(t, "failonce") == 0 {
				s.Nodes[i].FailInit = zoo.FailOnce
			}
		}
		in := s.Instantiate()
		in.Run()
		desc := "history " + s.Shape()
		if in.Out.Panic != nil {
			t.Fatalf("C01: panic %v\n%s", in.Out.Panic, desc)
		}
		if in.Out.Err != nil {
			kit.Rec.Case(desc, false, "start-failed")
			return
		}
		g := in.G
		handed := map[string]any{}
		var hist []string
		check := func() {
			for n, first := range handed {
				got, err := in.Out.App.GetComponentByName(n)
				if err != nil || got != first {
					t.Fatalf("C01: %q was handed out as %p before; now the lookup returns %v / %v\nhistory %v\n%s", n, first, got, err, hist, desc)
				}
			}
			if err := graph.CheckWiring(g, false); err != nil {
				t.Fatalf("C01: after %v: %v\n%s", hist, err, desc)
			}
			for i, b := range in.Behs {
				max := 1
				if s.Nodes[i].FailInit == zoo.FailOnce {
					max = 2
				}
				if b.InitCalls > max {
					t.Fatalf("C01: component %d was initialised %d times\nhistory %v\n%s", i, b.InitCalls, hist, desc)
				}
			}
		}
		t.Repeat(map[string]func(*rapid.T){
			"lookup": func(t *rapid.T) {
				i := rapid.IntRange(0, len(in.Comps)-1).Draw(t, "which")
				n := in.Comp(i).Name
				got, err := in.Out.App.GetComponentByName(n)
				hist = append(hist, fmt.Sprintf("lookup(%s) err=%v", n, err != nil))
				if err == nil {
					if prev, ok := handed[n]; ok && prev != got {
						t.Fatalf("C01: two lookups of %q returned different objects\nhistory %v\n%s", n, hist, desc)
					}
					if got != in.Comps[i] {
						t.Fatalf("C01: lookup of %q returned %T %p, the registered component is %p\n%s", n, got, got, in.Comps[i], desc)
					}
					handed[n] = got
				}
			},
			"enumerate": func(t *rapid.T) {
				all, err := in.Out.App.GetComponents()
				hist = append(hist, fmt.Sprintf("enumerate err=%v n=%d", err != nil, len(all)))
				if err == nil {
					seen := map[any]int{}
					for _, c := range all {
						seen[c]++
					}
					for _, c := range in.Comps {
						if seen[c] != 1 {
							t.Fatalf("C01: GetComponents lists %T %d times\nhistory %v\n%s", c, seen[c], hist, desc)
						}
					}
				}
			},
			"typed": func(t *rapid.T) {
				nodes, err := in.Out.App.GetComponents(container.InterfaceType(reflect.TypeOf((*zoo.INode)(nil)).Elem()))
				hist = append(hist, fmt.Sprintf("typed err=%v n=%d", err != nil, len(nodes)))
				if err == nil && len(nodes) != len(in.Comps) {
					t.Fatalf("C01: typed lookup returned %d of %d node components\nhistory %v\n%s", len(nodes), len(in.Comps), hist, desc)
				}
			},
			"": func(t *rapid.T) { check() },
		})
		kit.Rec.Case(desc+" | "+strings.Join(hist, ";"), len(hist) >= 3, "post-start-history")
	})
}
