package c01

import (
	"fmt"
	"github.com/go-kid/ioc/app"
	"github.com/go-kid/ioc/component_definition"
	"github.com/go-kid/ioc/container/processors"
	"os"
	"reflect"
	"sort"
	"strings"
	"testing"

	"github.com/go-kid/ioc/container"
	"pgregory.net/rapid"
	"verif/harness/graph"
	"verif/harness/kit"
	"verif/harness/model"
	"verif/harness/zoo"
)

func TestMain(m *testing.M) { kit.Main(m) }

const rule = "node-family scenarios (2-6 nodes, arbitrary digraph through qualifier masks, ring/group/by-name edges, eager/lazy/primary variants, optional consistent early-wrapping post-processor, drawn registration and registry-enumeration orders); non-trivial = start succeeded and some component is held by >=2 distinct holders or by a holder on a cycle with it; distinct by scenario shape; since rounds 7/8 also nodes that are post-processors themselves, and after each start lookups under names that only resemble registered ones (blanks around the name, the type id of a renamed component): they fail or return the shared instance and create nothing"

// checkIdentity is the C01 oracle. Returns labels and whether the case is non-trivial.
func checkIdentity(in *graph.Instance, wrap *graph.WrapPP) (labels []string, nontrivial bool, err error) {
	g := in.G
	type sight struct {
		holder string
		field  string
		obj    any
	}
	seen := map[string][]sight{} // target name -> sightings
	holders := map[string]map[string]bool{}
	for _, c := range g.Pop {
		for _, p := range g.Points[c] {
			for _, s := range graph.Observe(g, p) {
				if s.Raw == nil {
					return nil, false, fmt.Errorf("%v holds a nil element", p)
				}
				tn := s.TargetName(g)
				if tn == "" {
					return nil, false, fmt.Errorf("%v holds a foreign object %T %v (neither a registered component nor a harness wrapper)", p, s.Raw, s.Raw)
				}
				seen[tn] = append(seen[tn], sight{c.Name, p.Field.Name, s.Raw})
				if holders[tn] == nil {
					holders[tn] = map[string]bool{}
				}
				holders[tn][c.Name] = true
			}
		}
	}
	// what lookups made from Init during the start were handed counts like a holder's field
	for i, b := range in.Behs {
		if b == nil || i >= len(in.Comps) || !in.WasCreated(i) {
			continue
		}
		for _, r := range b.Looked {
			if r.Err != nil || r.Got == nil {
				continue
			}
			// programmatic lookups are not injection points (the container cannot know the caller): they count only where
			// the container itself decides what to publish - no substitution at all, or substitution at early-reference
			// time only
			if wrap != nil {
				if pl, ok := wrap.Plan[r.Name]; ok && (pl.Early != graph.WrapNew || pl.Before != 0 || pl.Inst != 0 || pl.After == graph.WrapNew) {
					continue
				}
			}
			seen[r.Name] = append(seen[r.Name], sight{in.Comp(i).Name, "Init-lookup", r.Got})
		}
	}
	// by-name lookups (also creates lazies that nobody needed: legitimate)
	lookup := map[string]any{}
	lookupFailed := false
	for _, c := range g.Pop {
		var got any
		var lerr error
		if p := kit.Protect(func() { got, lerr = in.Out.App.GetComponentByName(c.Name) }); p != nil {
			// creating a lazy component after start-up blew up: not an identity question (C07/C09 cover it)
			labels = append(labels, "lookup-panicked")
			lookupFailed = true
			break
		}
		if lerr != nil {
			// a lazy component that cannot be created is not C01's business. Stop looking things up:
			// any further lookup may implicitly re-attempt the refused creation (known finding
			// C03/retry-after-refused-lazy-creation), which is excluded here by construction.
			kit.Rec.Exclude("retry-after-refused-lazy-creation")
			lookupFailed = true
			break
		}
		lookup[c.Name] = got
		tn := ""
		if w, ok := got.(*zoo.W); ok {
			if t := g.Find(w.Target); t != nil {
				tn = t.Name
			}
		} else if t := g.Find(got); t != nil {
			tn = t.Name
		}
		if tn != c.Name {
			return nil, false, fmt.Errorf("GetComponentByName(%q) returned %T %v which is not a version of that component", c.Name, got, got)
		}
	}
	names := make([]string, 0, len(seen))
	for n := range seen {
		names = append(names, n)
	}
	sort.Strings(names)
	for _, n := range names {
		ss := seen[n]
		ref, hasRef := lookup[n]
		if !hasRef {
			ref = ss[0].obj
		}
		for _, s := range ss {
			if s.obj != ref {
				return nil, false, fmt.Errorf("component %q: %s.%s holds %v but the lookup / another holder sees %v (two versions of one singleton)", n, s.holder, s.field, s.obj, ref)
			}
		}
		if wrap == nil {
			if _, isW := ref.(*zoo.W); isW {
				return nil, false, fmt.Errorf("component %q is a wrapper although nothing wraps", n)
			}
		}
	}
	// a second wrapper for one target would be a second version even if nobody holds it... only if visible: checked above.
	// GetComponents must agree with the lookups
	var all []any
	var aerr error
	if lookupFailed {
		aerr = fmt.Errorf("skipped")
	} else if p := kit.Protect(func() { all, aerr = in.Out.App.GetComponents() }); p != nil {
		labels = append(labels, "getcomponents-panicked")
		aerr = fmt.Errorf("panic")
	}
	if aerr == nil {
		inLookup := map[any]bool{}
		for _, v := range lookup {
			inLookup[v] = true
		}
		for _, c := range all {
			if !inLookup[c] {
				return nil, false, fmt.Errorf("GetComponents returned %T %v which no by-name lookup returns", c, c)
			}
		}
	}
	// looking a component up again returns the very same object
	if !lookupFailed {
		for n, first := range lookup {
			var again any
			var aerr2 error
			if p := kit.Protect(func() { again, aerr2 = in.Out.App.GetComponentByName(n) }); p == nil && aerr2 == nil && again != first {
				return nil, false, fmt.Errorf("GetComponentByName(%q) returned %v first and %v on the second call", n, first, again)
			}
		}
	}
	// typed lookups through the public query options must return the same objects, completely
	if !lookupFailed {
		var nodes []any
		var nerr error
		if p := kit.Protect(func() {
			nodes, nerr = in.Out.App.GetComponents(container.InterfaceType(reflect.TypeOf((*zoo.INode)(nil)).Elem()))
		}); p == nil && nerr == nil {
			want := 0
			for _, c := range g.Pop {
				if _, ok := c.Obj.(zoo.INode); ok {
					want++
				}
			}
			if len(nodes) != want {
				return nil, false, fmt.Errorf("GetComponents(InterfaceType(INode)) returned %d components, %d registered components implement it", len(nodes), want)
			}
			inLookup := map[any]bool{}
			for _, v := range lookup {
				inLookup[v] = true
			}
			for _, n := range nodes {
				if !inLookup[n] {
					return nil, false, fmt.Errorf("GetComponents(InterfaceType(INode)) returned %T %v which no by-name lookup returns", n, n)
				}
			}
		}
	}
	// labels / non-triviality
	reach := g.Reach()
	for n, hs := range holders {
		t := g.ByName[n]
		if len(hs) >= 2 {
			nontrivial = true
			labels = append(labels, "diamond/fan-in")
		}
		for h := range hs {
			hc := g.ByName[h]
			if t != nil && hc != nil && reach[t][hc] {
				nontrivial = true
				labels = append(labels, "held-on-cycle")
			}
		}
	}
	return dedup(labels), nontrivial, nil
}

func dedup(xs []string) []string {
	m := map[string]bool{}
	var out []string
	for _, x := range xs {
		if !m[x] {
			m[x] = true
			out = append(out, x)
		}
	}
	sort.Strings(out)
	return out
}

func runCase(t interface {
	Fatalf(string, ...any)
}, s *graph.Scenario, wrapNames map[int]bool, plans map[int]graph.WrapPlan) {
	in := s.Instantiate()
	var wrap *graph.WrapPP
	if len(wrapNames) > 0 || len(plans) > 0 {
		wrap = &graph.WrapPP{Plan: map[string]graph.WrapPlan{}, IDOf: func(c any) int {
			if id, ok := in.IDs[reflect.ValueOf(c).Pointer()]; ok {
				return id
			}
			return -1
		}}
		for id := range wrapNames {
			n, _ := model.NameOf(in.Comps[id])
			wrap.Plan[n] = graph.WrapPlan{Early: graph.WrapNew}
		}
		for id, pl := range plans {
			n, _ := model.NameOf(in.Comps[id])
			wrap.Plan[n] = pl
		}
		in.Extra = append(in.Extra, wrap)
	}
	in.Run()
	desc := s.Shape()
	if wrap != nil {
		var w []string
		for id := range wrapNames {
			w = append(w, fmt.Sprint(id))
		}
		sort.Strings(w)
		desc += " earlywrap=" + strings.Join(w, ",")
		var ps []string
		for id, pl := range plans {
			ps = append(ps, fmt.Sprintf("%d:%v", id, pl))
		}
		sort.Strings(ps)
		desc += " plans=" + strings.Join(ps, ",")
	}
	if in.Out.Panic != nil {
		if _, ok := in.Out.Panic.(graph.BudgetExceeded); ok {
			t.Fatalf("start-up did not terminate within budget: %v\nscenario: %s", in.Out.Panic, desc)
		}
	}
	if !in.Out.OK() {
		kit.Rec.Case(desc, false, "start-failed")
		return
	}
	labels, nt, err := checkIdentity(in, wrap)
	if err != nil {
		t.Fatalf("C01 identity violated: %v\nscenario: %s\nreg order %v ordmode=%d", err, desc, s.RegPerm, s.OrdMode)
	}
	// names that only resemble a registered one never yield a second version
	if err := graph.VariantLookups(in); err != nil {
		t.Fatalf("C01 identity violated: %v\nscenario: %s", err, desc)
	}
	if wrap != nil {
		for n, ws := range wrap.Wrapped {
			if len(ws) > 0 {
				labels = append(labels, "early-wrap-happened")
				_ = n
				break
			}
		}
	}
	for _, n := range s.Nodes {
		if n.Variant == 'L' {
			labels = append(labels, "has-lazy")
			break
		}
	}
	kit.Rec.Case(desc, nt, labels...)
}

func TestIdentity(t *testing.T) {
	kit.Rec.Rule(rule)
	rapid.Check(t, func(t *rapid.T) {
		s := graph.Gen(t, graph.GenOpts{MinNodes: 2, MaxNodes: 6, Variants: "NNLPEUHX", Aliases: true, Lookups: true, Twins: true, Alt: true})
		wrapNames := map[int]bool{}
		plans := map[int]graph.WrapPlan{}
		switch rapid.IntRange(0, 2).Draw(t, "wrapmode") {
		case 1: // consistent early wrapping: start-up is expected to succeed with the wrapper everywhere
			for i, n := range s.Nodes {
				// a *T field cannot hold a substitute: only wrap nodes nobody can reference by pointer type
				if n.Variant != 'N' && rapid.Bool().Draw(t, "wrap") {
					wrapNames[i] = true
				}
			}
		case 2: // arbitrary wrap timings: start-up may refuse, but if it succeeds identity must hold
			for i, n := range s.Nodes {
				if n.Variant != 'N' && rapid.Bool().Draw(t, "wrap") {
					plans[i] = graph.WrapPlan{Early: rapid.IntRange(0, 1).Draw(t, "e"), Before: rapid.SampledFrom([]int{0, 0, 1}).Draw(t, "b"), After: rapid.IntRange(0, 3).Draw(t, "a"), Inst: rapid.SampledFrom([]int{0, 0, 0, 1}).Draw(t, "inst")}
				}
			}
		}
		runCase(t, s, wrapNames, plans)
	})
}

// TestScale: induced subgraphs of the 200-node family (rings, skip links, dense fan-in).
func TestScale(t *testing.T) {
	kit.Rec.Rule(rule)
	rapid.Check(t, func(t *rapid.T) {
		s := &graph.Scenario{}
		switch rapid.IntRange(0, 2).Draw(t, "kind") {
		case 0: // full ring
			for i := 0; i < zoo.ZN; i++ {
				s.Z = append(s.Z, i)
			}
		case 1: // contiguous arc
			n := rapid.IntRange(20, 199).Draw(t, "n")
			o := rapid.IntRange(0, 199).Draw(t, "o")
			for i := 0; i < n; i++ {
				s.Z = append(s.Z, (o+i)%zoo.ZN)
			}
		default: // random subset
			for i := 0; i < zoo.ZN; i++ {
				if rapid.IntRange(0, 2).Draw(t, "in") > 0 {
					s.Z = append(s.Z, i)
				}
			}
		}
		drawZPar(t, s)
		graph.DrawOrders(t, s)
		runCase(t, s, nil, nil)
	})
}

// drawZPar gives every scale-family node a drawn "parent": the node is held by the qualified slice of that
// Z type if it is registered - data-driven edges (random functional graphs: long chains, trees, big cycles)
// on top of the family's static ring / skip / fan-in edges.
func drawZPar(t *rapid.T, s *graph.Scenario) {
	s.ZPar = make([]int, len(s.Z))
	for i := range s.ZPar {
		if rapid.IntRange(0, 3).Draw(t, "haspar") == 0 {
			s.ZPar[i] = -1
		} else {
			s.ZPar[i] = s.Z[rapid.IntRange(0, len(s.Z)-1).Draw(t, "par")]
		}
	}
}

// TestPostStartHistory: a multi-step history after a successful start. Mostly lazy components, some of
// them failing their first initialisation; the history draws by-name lookups (repeated, also of failed
// names), typed lookups and full enumerations. After EVERY step: a name that was handed out once keeps
// returning the same object, nobody holds a second version, wiring stays admissible and duplicate free,
// and every component that never failed was initialised at most once.
func TestPostStartHistory(t *testing.T) {
	kit.Rec.Rule(rule)
	knownStale := kit.IsKnown("dependant-keeps-early-reference-of-failed-lazy-creation")
	rapid.Check(t, func(t *rapid.T) {
		s := graph.Gen(t, graph.GenOpts{MinNodes: 3, MaxNodes: 6, Variants: "LLLNE", Aliases: true})
		for i := range s.Nodes {
			if s.Nodes[i].Variant == 'L' && rapid.IntRange(0, 4).Draw(t, "failonce") == 0 {
				s.Nodes[i].FailInit = zoo.FailOnce
			}
		}
		in := s.Instantiate()
		in.ForceHook = true // the creation trace is needed below (which holder was published before which failure)
		// now and then the non-pointer-referenced nodes are proxied consistently (a fresh proxy whenever an early
		// reference is requested, nothing more after initialization - the auto-proxy idiom, never refused by the container): a retried creation builds a new one
		var wrap *graph.WrapPP
		var wrapped []string
		if rapid.IntRange(0, 2).Draw(t, "proxies") == 0 {
			wrap = &graph.WrapPP{Plan: map[string]graph.WrapPlan{}, IDOf: func(c any) int {
				if id, ok := in.IDs[reflect.ValueOf(c).Pointer()]; ok {
					return id
				}
				return -1
			}}
			for i, n := range s.Nodes {
				if n.Variant != 'N' && rapid.Bool().Draw(t, "proxied") {
					name, _ := model.NameOf(in.Comps[i])
					wrap.Plan[name] = graph.WrapPlan{Early: graph.WrapNew, After: graph.WrapUnlessEarly}
					wrapped = append(wrapped, fmt.Sprint(i))
				}
			}
			in.Extra = append(in.Extra, wrap)
		}
		in.Run()
		desc := "history " + s.Shape() + " proxied=" + strings.Join(wrapped, ",")
		if in.Out.Panic != nil {
			t.Fatalf("C01: panic %v\n%s", in.Out.Panic, desc)
		}
		if in.Out.Err != nil {
			kit.Rec.Case(desc, false, "start-failed")
			return
		}
		g := in.G
		handed := map[string]any{}
		var hist []string
		check := func() {
			for n, first := range handed {
				got, err := in.Out.App.GetComponentByName(n)
				if err != nil || got != first {
					t.Fatalf("C01: %q was handed out as %p before; now the lookup returns %v / %v\nhistory %v\n%s", n, first, got, err, hist, desc)
				}
			}
			if err := graph.CheckWiring(g, false); err != nil {
				t.Fatalf("C01: after %v: %v\n%s", hist, err, desc)
			}
			// one version per component among the holders the container has created, and the one handed out by name
			sight := map[string]any{}
			where := map[string]string{}
			lastFail, okAt := map[string]int{}, map[string]int{}
			for i, e := range in.Tracer.Events {
				if e.Op == "create-exit" {
					if e.Err {
						lastFail[e.Name] = i + 1
					} else if e.Flag {
						okAt[e.Name] = i + 1
					}
				}
			}
			for id := range in.Comps {
				c := in.Comp(id)
				if !in.WasCreated(id) {
					continue
				}
				for _, p := range g.Points[c] {
					for _, sn := range graph.Observe(g, p) {
						tn := sn.TargetName(g)
						if tn == "" || sn.Raw == nil {
							continue
						}
						if knownStale && okAt[c.Name] < lastFail[tn] {
							// known finding: this holder was published before the target's last failed attempt ended
							// and may keep the early reference of that attempt; excluded by construction
							kit.Rec.Exclude("dependant-keeps-early-reference-of-failed-lazy-creation")
							continue
						}
						if prev, ok := sight[tn]; ok && prev != sn.Raw {
							var evs []string
							if os.Getenv("VERIF_DEBUG") != "" {
								for i, e := range in.Tracer.Events {
									if e.Op == "create-exit" || e.Op == "create-enter" || e.Op == "factory-run" {
										evs = append(evs, fmt.Sprintf("%d:%s %s err=%v flag=%v", i, e.Op, e.Name, e.Err, e.Flag))
									}
								}
							}
							t.Fatalf("C01: two versions of %q are held: %s holds %v, %v holds %v\nhistory %v\n%s\n%s", tn, where[tn], prev, p, sn.Raw, hist, desc, strings.Join(evs, "\n"))
						}
						sight[tn], where[tn] = sn.Raw, p.String()
						if h, ok := handed[tn]; ok && h != sn.Raw {
							t.Fatalf("C01: %v holds %v but the lookup of %q handed out %v\nhistory %v\n%s", p, sn.Raw, tn, h, hist, desc)
						}
					}
				}
			}
			for i, b := range in.Behs {
				max := 1
				if s.Nodes[i].FailInit == zoo.FailOnce {
					max = 2
				}
				if b.InitCalls > max {
					t.Fatalf("C01: component %d was initialised %d times\nhistory %v\n%s", i, b.InitCalls, hist, desc)
				}
			}
		}
		t.Repeat(map[string]func(*rapid.T){
			"lookup": func(t *rapid.T) {
				i := rapid.IntRange(0, len(in.Comps)-1).Draw(t, "which")
				n := in.Comp(i).Name
				got, err := in.Out.App.GetComponentByName(n)
				hist = append(hist, fmt.Sprintf("lookup(%s) err=%v", n, err != nil))
				if err == nil {
					if prev, ok := handed[n]; ok && prev != got {
						t.Fatalf("C01: two lookups of %q returned different objects\nhistory %v\n%s", n, hist, desc)
					}
					raw := got
					if w, ok := got.(*zoo.W); ok && wrap != nil {
						raw = w.Target
					}
					if raw != in.Comps[i] {
						t.Fatalf("C01: lookup of %q returned %T %p, the registered component is %p\n%s", n, got, got, in.Comps[i], desc)
					}
					handed[n] = got
				}
			},
			"enumerate": func(t *rapid.T) {
				all, err := in.Out.App.GetComponents()
				hist = append(hist, fmt.Sprintf("enumerate err=%v n=%d", err != nil, len(all)))
				if err == nil {
					seen := map[any]int{}
					for _, c := range all {
						if w, ok := c.(*zoo.W); ok && wrap != nil {
							c = w.Target // a proxied component is listed through its proxy
						}
						seen[c]++
					}
					for _, c := range in.Comps {
						if seen[c] != 1 {
							t.Fatalf("C01: GetComponents lists %T %d times\nhistory %v\n%s", c, seen[c], hist, desc)
						}
					}
				}
			},
			"typed": func(t *rapid.T) {
				nodes, err := in.Out.App.GetComponents(container.InterfaceType(reflect.TypeOf((*zoo.INode)(nil)).Elem()))
				hist = append(hist, fmt.Sprintf("typed err=%v n=%d", err != nil, len(nodes)))
				if err == nil && len(nodes) != len(in.Comps) {
					t.Fatalf("C01: typed lookup returned %d of %d node components\nhistory %v\n%s", len(nodes), len(in.Comps), hist, desc)
				}
			},
			"": func(t *rapid.T) { check() },
		})
		kit.Rec.Case(desc+" | "+strings.Join(hist, ";"), len(hist) >= 3, "post-start-history")
	})
}

// ---------------------------------------------------------------------------------------------------
// Known finding C01/dependant-keeps-early-reference-of-failed-lazy-creation: fixed witness.
//
// All components are lazy; "k-a" is proxied by an auto-proxy style post-processor (a fresh proxy whenever an
// early reference is requested; the container publishes the early reference). k-a wires k-b, k-c, k-d; k-b and
// k-d wire k-a back; k-c fails its first initialisation.
// Lookup 1 of k-a: k-b receives early proxy #1 of k-a and is published; k-c fails; the creation of k-a fails.
// Lookup 2 of k-a: k-b is taken as published, k-c succeeds, k-d receives early proxy #2, which is published.
// k-b keeps proxy #1 of the failed attempt: two versions of k-a are live.

type KI interface{ isKA() }
type KA struct {
	B *KB `wire:""`
	C *KC `wire:""`
	D *KD `wire:""`
}

func (*KA) isKA()          {}
func (*KA) LazyInit()      {}
func (*KA) Naming() string { return "k-a" }

type KB struct {
	A KI `wire:""`
}

func (*KB) LazyInit() {}

type KC struct{ inits int }

func (*KC) LazyInit() {}
func (c *KC) Init() error {
	c.inits++
	if c.inits == 1 {
		return fmt.Errorf("first initialisation fails")
	}
	return nil
}

type KD struct {
	A KI `wire:""`
}

func (*KD) LazyInit() {}

type KProxy struct {
	Target any
	N      int
}

func (*KProxy) isKA() {}

type kProxyPP struct {
	processors.DefaultInstantiationAwareComponentPostProcessor
	n    int
	last *KProxy
}

func (p *kProxyPP) GetEarlyBeanReference(c any, name string) (any, error) {
	if name != "k-a" {
		return c, nil
	}
	p.n++
	p.last = &KProxy{Target: c, N: p.n}
	return p.last, nil
}

func TestKnownStaleEarlyReferenceAfterFailedCreation(t *testing.T) {
	const class = "dependant-keeps-early-reference-of-failed-lazy-creation"
	a, b, c, d := &KA{}, &KB{}, &KC{}, &KD{}
	out := kit.RunApp(app.SetComponents(a, b, c, d, &kProxyPP{}))
	if !out.OK() {
		kit.Rec.KnownWitness(class, false, "start failed: "+out.String())
		return
	}
	_, err1 := out.App.GetComponentByName("k-a")
	got2, err2 := out.App.GetComponentByName("k-a")
	fails := err1 != nil && err2 == nil && b.A != nil && any(b.A) != got2 && d.A != nil && any(d.A) == got2
	kit.Rec.KnownWitness(class, fails, fmt.Sprintf("lookup 1 err=%v; lookup 2 err=%v returns %v; k-b holds %v, k-d holds %v", err1 != nil, err2, got2, b.A, d.A))
	t.Logf("witness fails=%v: lookup 1 err=%v; lookup 2 err=%v returns %v; k-b holds %v, k-d holds %v", fails, err1, err2, got2, b.A, d.A)
}

// ---------------------------------------------------------------------------------------------------
// A post-processor replaces a component by ANOTHER INSTANCE OF THE SAME TYPE (a configured copy returned after
// initialization, or a pre-built instance handed out before instantiation). The replacement is the singleton:
// pointer fields, slice elements, by-name `any` fields and the lookup all refer to it.

type SRepo struct {
	Tag string
	N   int
}

func (*SRepo) Naming() string { return "s-repo" }

type SHolder struct {
	P   *SRepo   `wire:""`
	All []*SRepo `wire:""`
	Any any      `wire:"s-repo"`
}

type sameTypePP struct {
	processors.DefaultInstantiationAwareComponentPostProcessor
	mode    string // "after" | "beforeinst"
	replica *SRepo
}

func (p *sameTypePP) PostProcessBeforeInstantiation(m *component_definition.Meta, name string) (any, error) {
	if p.mode == "beforeinst" && name == "s-repo" {
		return p.replica, nil
	}
	return nil, nil
}

func (p *sameTypePP) PostProcessAfterInitialization(c any, name string) (any, error) {
	if p.mode == "after" && name == "s-repo" {
		if r, ok := c.(*SRepo); ok && r != p.replica {
			return p.replica, nil
		}
	}
	return c, nil
}

func TestSameTypeReplacement(t *testing.T) {
	kit.Rec.Rule(rule)
	for _, mode := range []string{"after", "beforeinst"} {
		for _, holderFirst := range []bool{false, true} {
			orig, replica := &SRepo{Tag: "registered"}, &SRepo{Tag: "replacement"}
			h := &SHolder{}
			comps := []any{orig, h, &sameTypePP{mode: mode, replica: replica}}
			if holderFirst {
				comps[0], comps[1] = comps[1], comps[0]
			}
			out := kit.RunApp(app.SetComponents(comps...))
			desc := fmt.Sprintf("same-type replacement %s, holder registered first=%v", mode, holderFirst)
			if !out.OK() {
				// a start that is refused is not an identity question
				kit.Rec.Case(desc+" (start refused)", false, "same-type-replacement-refused")
				continue
			}
			got, err := out.App.GetComponentByName("s-repo")
			if err != nil {
				t.Fatalf("C01: %s: lookup failed: %v", desc, err)
			}
			fail := func(what string, v any) {
				kit.DumpReplay("c01-same-type-replacement", map[string]any{"case": desc, "what": what})
				t.Fatalf("C01: %s: the lookup returns %p (%+v) but %s refers to %p: two versions of one singleton", desc, got, got, what, v)
			}
			if any(h.P) != got {
				fail("the holder's pointer field", h.P)
			}
			if len(h.All) != 1 || any(h.All[0]) != got {
				fail(fmt.Sprintf("the holder's slice %v", h.All), nil)
			}
			if h.Any != got {
				fail("the holder's by-name any field", h.Any)
			}
			if got != any(replica) {
				t.Fatalf("C01: %s: the container publishes %+v, not the replacement the post-processor returned", desc, got)
			}
			kit.Rec.Case(desc, true, "same-type-replacement")
		}
	}
}
