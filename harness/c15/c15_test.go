package c15

import (
	"fmt"
	"github.com/go-kid/ioc"
	"math"
	"os"
	"path/filepath"
	"reflect"
	"sort"
	"strings"
	"testing"
	"time"

	"github.com/go-kid/ioc/app"
	"github.com/go-kid/ioc/configure"
	"github.com/go-kid/ioc/configure/binder"
	"github.com/go-kid/ioc/configure/loader"
	"gopkg.in/yaml.v3"
	"pgregory.net/rapid"
	"verif/harness/kit"
)

func TestMain(m *testing.M) { kit.Main(m) }

const rule = "1-4 configuration sources of kinds raw / file (temp dir) / command-line arguments (explicit ArgsLoader or the default one fed through os.Args), each a key tree over a shape-consistent schema of leaf paths (keys [a-c]{1,2}, depth<=3; leaves int / plain string / int list) with overlapping and exclusive keys, attached by an option script mixing SetConfigLoader, AddConfigLoader and SetConfig in drawn order; oracle: reference deep merge in the contract sequence (files first, the others in the order added; a leaf supplied by two files may take either value); App.Get(path) for every leaf and a prefix-bound map field must equal it; non-trivial = >=2 effective sources with >=1 overlapping and >=1 exclusive key; distinct by documents + script; since rounds 7/8 also up to 28 sources, a second App started from the same option values, and a document the binder cannot read (reported, or nothing else dropped)"

type source struct {
	Kind   string // raw file args osargs
	Leaves map[string]any
}

func (s source) String() string {
	var ks []string
	for k, v := range s.Leaves {
		ks = append(ks, fmt.Sprintf("%s=%v", k, v))
	}
	sort.Strings(ks)
	return s.Kind + "{" + strings.Join(ks, " ") + "}"
}

type op struct {
	Name    string // Set Add File
	Sources []int
}

func nest(leaves map[string]any) map[string]any {
	root := map[string]any{}
	for p, v := range leaves {
		parts := strings.Split(p, ".")
		m := root
		for _, k := range parts[:len(parts)-1] {
			nx, ok := m[k].(map[string]any)
			if !ok {
				nx = map[string]any{}
				m[k] = nx
			}
			m = nx
		}
		m[parts[len(parts)-1]] = v
	}
	return root
}

func canon(v any) any {
	switch x := v.(type) {
	case int:
		return int64(x)
	case int64:
		return x
	case float64:
		if x == float64(int64(x)) {
			return int64(x)
		}
		return x
	case []any:
		out := make([]any, len(x))
		for i := range x {
			out[i] = canon(x[i])
		}
		return out
	case []int:
		out := make([]any, len(x))
		for i := range x {
			out[i] = int64(x[i])
		}
		return out
	case map[string]any:
		out := map[string]any{}
		for k, e := range x {
			out[k] = canon(e)
		}
		return out
	case map[any]any:
		out := map[string]any{}
		for k, e := range x {
			out[fmt.Sprint(k)] = canon(e)
		}
		return out
	}
	return v
}

func genSchema(t *rapid.T) []string {
	keys := []string{"a", "b", "c", "aa", "bc", "cb"}
	n := rapid.IntRange(2, 7).Draw(t, "npaths")
	seen := map[string]bool{}
	var out []string
	for i := 0; i < n*3 && len(out) < n; i++ {
		d := rapid.IntRange(1, 3).Draw(t, "depth")
		var parts []string
		for j := 0; j < d; j++ {
			parts = append(parts, rapid.SampledFrom(keys).Draw(t, "key"))
		}
		p := strings.Join(parts, ".")
		ok := !seen[p]
		for q := range seen {
			if strings.HasPrefix(q, p+".") || strings.HasPrefix(p, q+".") {
				ok = false
			}
		}
		if ok {
			seen[p] = true
			out = append(out, p)
		}
	}
	sort.Strings(out)
	return out
}

func genValue(t *rapid.T, kind string) any {
	switch rapid.IntRange(0, 2).Draw(t, "vkind") {
	case 0:
		return rapid.IntRange(0, 99).Draw(t, "int")
	case 1:
		return "s" + rapid.StringMatching(`[a-z]{1,3}`).Draw(t, "str")
	}
	if kind == "args" || kind == "osargs" {
		if rapid.IntRange(0, 3).Draw(t, "blank") == 0 {
			return "" // --app.config=key= : an explicit blank assignment is a value like any other
		}
		return rapid.IntRange(100, 199).Draw(t, "int2")
	}
	n := rapid.IntRange(1, 3).Draw(t, "ln")
	l := make([]int, n)
	for i := range l {
		l[i] = rapid.IntRange(0, 9).Draw(t, "le")
	}
	return l
}

func TestMerge(t *testing.T) {
	kit.Rec.Rule(rule)
	rapid.Check(t, func(t *rapid.T) {
		schema := genSchema(t)
		ns := rapid.IntRange(1, 4).Draw(t, "nsources")
		if rapid.IntRange(0, 7).Draw(t, "many") == 0 {
			// many sources: the loader sequence must stay "files first, the others as added" at every size
			ns = rapid.IntRange(10, 28).Draw(t, "nmany")
		}
		srcs := make([]source, ns)
		osargsUsed := false
		for i := range srcs {
			k := rapid.SampledFrom([]string{"raw", "raw", "file", "file", "args", "osargs"}).Draw(t, "kind")
			if k == "osargs" && (osargsUsed || i != 0) {
				k = "args"
			}
			if k == "osargs" {
				osargsUsed = true
			}
			if k == "raw" && ns <= 4 && rapid.IntRange(0, 11).Draw(t, "garbage") == 0 {
				// a document the binder cannot read: the start reports it - or, if it goes on, drops nothing else
				srcs[i] = source{Kind: "garbage", Leaves: map[string]any{}}
				continue
			}
			srcs[i] = source{Kind: k, Leaves: map[string]any{}}
			for _, p := range schema {
				if rapid.IntRange(0, 2).Draw(t, "has") > 0 {
					srcs[i].Leaves[p] = genValue(t, k)
				}
			}
			if len(srcs[i].Leaves) == 0 {
				srcs[i].Leaves[schema[0]] = genValue(t, k)
			}
		}
		// option script over the non-osargs sources, in order
		var script []op
		for i := range srcs {
			if srcs[i].Kind == "osargs" {
				continue
			}
			switch {
			case srcs[i].Kind == "file" && rapid.IntRange(0, 2).Draw(t, "fileviaoption") > 0:
				script = append(script, op{"File", []int{i}})
			default:
				name := "Add"
				if rapid.IntRange(0, 3).Draw(t, "setop") == 0 {
					name = "Set"
				}
				if len(script) > 0 && script[len(script)-1].Name == name && name != "File" && rapid.Bool().Draw(t, "join") {
					script[len(script)-1].Sources = append(script[len(script)-1].Sources, i)
				} else {
					script = append(script, op{name, []int{i}})
				}
			}
		}
		// materialise
		dir, err := os.MkdirTemp("", "c15-")
		if err != nil {
			t.Skip("no temp dir")
		}
		defer os.RemoveAll(dir)
		mkLoader := func(i int) configure.Loader {
			s := srcs[i]
			switch s.Kind {
			case "garbage":
				return loader.NewRawLoader([]byte("c15: [unclosed\n\tbad: : :\n"))
			case "raw":
				b, _ := yaml.Marshal(nest(s.Leaves))
				return loader.NewRawLoader(b)
			case "file":
				b, _ := yaml.Marshal(nest(s.Leaves))
				p := filepath.Join(dir, fmt.Sprintf("cfgl%d.yaml", i))
				_ = os.WriteFile(p, b, 0o644)
				return loader.NewFileLoader(p)
			default: // args
				return loader.NewArgsLoader(argsOf(s))
			}
		}
		// now and then a source that was already attached is attached again at the end (A, B, A)
		if len(script) >= 2 && rapid.IntRange(0, 3).Draw(t, "readd") == 0 {
			first := script[0]
			if first.Name != "File" {
				script = append(script, op{"Add", []int{first.Sources[0]}})
			}
		}
		var ops []app.SettingOption
		// model of the loader list: indices of sources, -1 = the default argument loader
		list := []int{-1}
		for _, o := range script {
			switch o.Name {
			case "File":
				i := o.Sources[0]
				b, _ := yaml.Marshal(nest(srcs[i].Leaves))
				p := filepath.Join(dir, fmt.Sprintf("cfg%d.yaml", i))
				if err := os.WriteFile(p, b, 0o644); err != nil {
					t.Skip("cannot write temp file")
				}
				ops = append(ops, app.SetConfig(p))
				list = append(list, i)
			case "Set":
				var ls []configure.Loader
				for _, i := range o.Sources {
					ls = append(ls, mkLoader(i))
				}
				ops = append(ops, app.SetConfigLoader(ls...))
				list = append([]int(nil), o.Sources...)
			case "Add":
				var ls []configure.Loader
				for _, i := range o.Sources {
					ls = append(ls, mkLoader(i))
				}
				ops = append(ops, app.AddConfigLoader(ls...))
				list = append(list, o.Sources...)
			}
		}
		// consumer with prefix-bound maps for every top-level key
		tops := map[string]bool{}
		for _, p := range schema {
			tops[strings.Split(p, ".")[0]] = true
		}
		var topKeys []string
		for k := range tops {
			topKeys = append(topKeys, k)
		}
		sort.Strings(topKeys)
		var fs []reflect.StructField
		for i, k := range topKeys {
			fs = append(fs, reflect.StructField{Name: fmt.Sprintf("P%d", i), Type: reflect.TypeOf((*any)(nil)).Elem(), Tag: reflect.StructTag(fmt.Sprintf(`prefix:"%s,required=false"`, k))})
		}
		consumerType := reflect.StructOf(fs)
		cfgOps := ops
		rounds := 1
		if rapid.IntRange(0, 3).Draw(t, "again") == 0 {
			// the very same option values configure a second App of the process (a shared option list): same result
			rounds = 2
		}
		for round := 0; round < rounds; round++ {
			consumer := reflect.New(consumerType)
			ops := append(append([]app.SettingOption(nil), cfgOps...), app.SetComponents(consumer.Interface()))
			// the default argument loader reads os.Args when the App is created
			saved := os.Args
			if osargsUsed {
				os.Args = append([]string{saved[0]}, argsOf(srcs[0])...)
			} else {
				os.Args = saved[:1]
			}
			// environment variables spelled like the keys must not matter
			var envs []string
			for _, p := range schema {
				for _, name := range []string{strings.ToUpper(strings.ReplaceAll(p, ".", "_")), strings.ToUpper(strings.Split(p, ".")[0])} {
					if _, exists := os.LookupEnv(name); !exists {
						os.Setenv(name, "from-environment")
						envs = append(envs, name)
					}
				}
			}
			out := kit.RunApp(ops...)
			for _, name := range envs {
				os.Unsetenv(name)
			}
			os.Args = saved
			var ss []string
			for _, s := range srcs {
				ss = append(ss, s.String())
			}
			desc := fmt.Sprintf("sources %s script %v round %d", strings.Join(ss, " | "), script, round)
			garbageAttached := false
			for _, i := range list {
				if i >= 0 && srcs[i].Kind == "garbage" {
					garbageAttached = true
				}
			}
			if garbageAttached && out.Panic == nil && out.Err != nil {
				kit.Rec.Case(desc, false, "unreadable-document-reported")
				continue
			}
			if !out.OK() {
				t.Fatalf("C15: start failed: %v\n%s", out, desc)
			}
			// reference: files first (any order among files), then the others in list order
			effective := []int{}
			var files, others []int
			for _, i := range list {
				if i == -1 {
					if osargsUsed {
						others = append(others, 0)
					}
					continue
				}
				if srcs[i].Kind == "file" {
					files = append(files, i)
				} else {
					others = append(others, i)
				}
			}
			effective = append(append(effective, files...), others...)
			want := map[string][]any{} // leaf -> admissible values
			suppliers := map[string]int{}
			for _, p := range schema {
				var fileVals []any
				var last any
				has := false
				for _, i := range files {
					if v, ok := srcs[i].Leaves[p]; ok {
						fileVals = append(fileVals, v)
						suppliers[p]++
					}
				}
				for _, i := range others {
					if v, ok := srcs[i].Leaves[p]; ok {
						last, has = v, true
						suppliers[p]++
					}
				}
				switch {
				case has:
					want[p] = []any{last}
				case len(fileVals) > 0:
					want[p] = fileVals
				}
			}
			for _, p := range schema {
				got := out.App.Get(p)
				adm, expected := want[p]
				if !expected {
					if got != nil {
						t.Fatalf("C15: key %q is supplied by no effective source but Get returns %v\n%s\neffective order %v", p, got, desc, effective)
					}
					continue
				}
				ok := false
				for _, a := range adm {
					if reflect.DeepEqual(canon(got), canon(a)) {
						ok = true
					}
				}
				if !ok {
					t.Fatalf("C15: Get(%q) = %#v, the merge of the sources in loader order gives %v\n%s\neffective order %v (files first, others as added)", p, got, adm, desc, effective)
				}
			}
			// prefix-bound twin: the subtree under every top-level key
			for i, k := range topKeys {
				sub := map[string]any{}
				ambiguous, any1 := false, false
				for p, adm := range want {
					if p == k || strings.HasPrefix(p, k+".") {
						any1 = true
						if len(adm) > 1 {
							ambiguous = true
						}
						sub[p] = adm[0]
					}
				}
				if ambiguous {
					continue
				}
				got := consumer.Elem().Field(i).Interface()
				var exp any
				if any1 {
					exp = nest(sub)[k]
				}
				if !reflect.DeepEqual(canon(got), canon(exp)) {
					t.Fatalf("C15: field bound with prefix %q holds %#v, the merged configuration has %#v there\n%s", k, got, exp, desc)
				}
			}
			overlap, exclusive := false, false
			for _, p := range schema {
				if suppliers[p] >= 2 {
					overlap = true
				}
				if suppliers[p] == 1 {
					exclusive = true
				}
			}
			var labels []string
			for _, o := range script {
				labels = append(labels, "op/"+o.Name)
			}
			if osargsUsed {
				labels = append(labels, "default-args-loader")
			}
			if len(files) >= 2 {
				labels = append(labels, "two-files")
			}
			if len(effective) >= 13 {
				labels = append(labels, "13-or-more-loaders")
			}
			if round == 1 {
				labels = append(labels, "same-options-second-app")
			}
			kit.Rec.Case(desc, len(effective) >= 2 && overlap && exclusive, dedup(labels)...)
		}
	})
}

func argsOf(s source) []string {
	var keys []string
	for k := range s.Leaves {
		keys = append(keys, k)
	}
	sort.Strings(keys)
	var out []string
	for _, k := range keys {
		out = append(out, fmt.Sprintf("--app.config=%s=%v", k, s.Leaves[k]))
	}
	return out
}

func dedup(xs []string) []string {
	m := map[string]bool{}
	var out []string
	for _, x := range xs {
		if !m[x] {
			m[x] = true
			out = append(out, x)
		}
	}
	return out
}

// TestReinitialize: the Configure API used in several steps - attach sources, Initialize, attach more
// (files sort to the front), Initialize again. After the last Initialize the effective configuration is
// the merge of ALL attached sources in the contract sequence.
func TestReinitialize(t *testing.T) {
	kit.Rec.Rule(rule)
	rapid.Check(t, func(t *rapid.T) {
		schema := genSchema(t)
		ns := rapid.IntRange(2, 4).Draw(t, "nsources")
		srcs := make([]source, ns)
		for i := range srcs {
			k := rapid.SampledFrom([]string{"raw", "file", "args"}).Draw(t, "kind")
			srcs[i] = source{Kind: k, Leaves: map[string]any{}}
			for _, p := range schema {
				if rapid.IntRange(0, 2).Draw(t, "has") > 0 {
					srcs[i].Leaves[p] = genValue(t, k)
				}
			}
			if len(srcs[i].Leaves) == 0 {
				srcs[i].Leaves[schema[0]] = genValue(t, k)
			}
		}
		dir, err := os.MkdirTemp("", "c15r-")
		if err != nil {
			t.Skip("no temp dir")
		}
		defer os.RemoveAll(dir)
		c := configure.NewConfigure()
		c.SetBinder(binder.NewViperBinder("yaml"))
		split := rapid.IntRange(1, ns-1).Draw(t, "split")
		attach := func(i int) {
			s := srcs[i]
			switch s.Kind {
			case "raw":
				b, _ := yaml.Marshal(nest(s.Leaves))
				c.AddLoaders(loader.NewRawLoader(b))
			case "file":
				b, _ := yaml.Marshal(nest(s.Leaves))
				p := filepath.Join(dir, fmt.Sprintf("r%d.yaml", i))
				_ = os.WriteFile(p, b, 0o644)
				c.AddLoaders(loader.NewFileLoader(p))
			default:
				c.AddLoaders(loader.NewArgsLoader(argsOf(s)))
			}
		}
		for i := 0; i < split; i++ {
			attach(i)
		}
		if err := c.Initialize(); err != nil {
			t.Fatalf("C15: Initialize: %v", err)
		}
		// reading in between (keys, parents, absent keys) must not freeze what later sources may still override
		peeked := rapid.IntRange(0, 2).Draw(t, "peek") > 0
		if peeked {
			for _, p := range schema {
				_ = c.Get(p)
				_ = c.Get(strings.Split(p, ".")[0])
			}
			_ = c.Get("c15.absent")
		}
		for i := split; i < ns; i++ {
			attach(i)
		}
		if err := c.Initialize(); err != nil {
			t.Fatalf("C15: second Initialize: %v", err)
		}
		var ss []string
		for _, s := range srcs {
			ss = append(ss, s.String())
		}
		desc := fmt.Sprintf("reinit sources %s; Initialize after the first %d, again after all", strings.Join(ss, " | "), split)
		var files, others []int
		for i, s := range srcs {
			if s.Kind == "file" {
				files = append(files, i)
			} else {
				others = append(others, i)
			}
		}
		for _, p := range schema {
			var adm []any
			for _, i := range others {
				if v, ok := srcs[i].Leaves[p]; ok {
					adm = []any{v}
				}
			}
			if adm == nil {
				for _, i := range files {
					if v, ok := srcs[i].Leaves[p]; ok {
						adm = append(adm, v)
					}
				}
			}
			got := c.Get(p)
			if adm == nil {
				if got != nil {
					t.Fatalf("C15: key %q is supplied by no source but Get returns %v\n%s", p, got, desc)
				}
				continue
			}
			ok := false
			for _, a := range adm {
				if reflect.DeepEqual(canon(got), canon(a)) {
					ok = true
				}
			}
			if !ok {
				t.Fatalf("C15: after re-initialisation Get(%q) = %#v, the merge of all attached sources gives %v\n%s", p, got, adm, desc)
			}
		}
		kit.Rec.Case(desc, true, "reinitialize")
	})
}

// TestSharedLoaderList: one loader list (a file in the middle) handed to two containers through
// SetConfigLoader: the first container must not disturb what the second one loads.
func TestSharedLoaderList(t *testing.T) {
	kit.Rec.Rule(rule)
	rapid.Check(t, func(t *rapid.T) {
		dir, err := os.MkdirTemp("", "c15s-")
		if err != nil {
			t.Skip("no temp dir")
		}
		defer os.RemoveAll(dir)
		n := rapid.IntRange(2, 5).Draw(t, "n")
		filePos := rapid.IntRange(0, n-1).Draw(t, "filepos")
		want := map[string]int{}
		var list []configure.Loader
		for i := 0; i < n; i++ {
			key := fmt.Sprintf("only%d", i)
			want[key] = 10 + i
			doc := []byte(fmt.Sprintf("c15s:\n  %s: %d\n  shared: %d\n", key, 10+i, i))
			if i == filePos {
				p := filepath.Join(dir, "f.yaml")
				_ = os.WriteFile(p, doc, 0o644)
				list = append(list, loader.NewFileLoader(p))
			} else {
				list = append(list, loader.NewRawLoader(doc))
			}
		}
		for round := 1; round <= 2; round++ {
			out := kit.RunApp(app.SetConfigLoader(list...))
			if !out.OK() {
				t.Fatalf("C15: container %d failed: %v", round, out)
			}
			for k, v := range want {
				if got := out.App.Get("c15s." + k); !reflect.DeepEqual(canon(got), canon(v)) {
					t.Fatalf("C15: container %d built from the same loader list (file at position %d of %d): key %q = %v, want %d (a source was lost)", round, filePos, n, k, got, v)
				}
			}
		}
		kit.Rec.Case(fmt.Sprintf("shared list n=%d filepos=%d", n, filePos), true, "shared-loader-list")
	})
}

// ---- user-defined loaders of all three ordering classes, Order values up to the ends of the int range --------

type uLoader struct {
	data  []byte
	order int
}

func (l *uLoader) LoadConfig() ([]byte, error) { return l.data, nil }

type ordULoader struct{ uLoader }

func (l *ordULoader) Order() int { return l.order }

type prioULoader struct{ uLoader }

func (l *prioULoader) Order() int { return l.order }
func (l *prioULoader) Priority()  {}

// TestOrderedLoaders: every loader supplies the shared key c15o.k (its own index) and a key of its own. The loader
// sequence is priority-ordered loaders by Order, then ordered ones by Order, then the unordered ones as added; the
// last supplier of c15o.k in that sequence wins (among loaders tied on Order: any of them), no own key is lost.
func TestOrderedLoaders(t *testing.T) {
	kit.Rec.Rule(rule)
	orders := []int{math.MinInt, math.MinInt + 1, -1000000, -1, 0, 0, 1, 7, 1 << 40, math.MaxInt - 1, math.MaxInt}
	rapid.Check(t, func(t *rapid.T) {
		n := rapid.IntRange(1, 5).Draw(t, "n")
		type spec struct{ class, order int }
		specs := make([]spec, n)
		var ls []configure.Loader
		var d []string
		for i := range specs {
			specs[i] = spec{rapid.IntRange(0, 2).Draw(t, "class"), rapid.SampledFrom(orders).Draw(t, "order")}
			u := uLoader{data: []byte(fmt.Sprintf("c15o:\n  k: %d\n  own%d: %d\n", i, i, 100+i)), order: specs[i].order}
			switch specs[i].class {
			case 0:
				ls = append(ls, &prioULoader{u})
				d = append(d, fmt.Sprintf("%d:priority(%d)", i, u.order))
			case 1:
				ls = append(ls, &ordULoader{u})
				d = append(d, fmt.Sprintf("%d:ordered(%d)", i, u.order))
			default:
				ls = append(ls, &u)
				d = append(d, fmt.Sprintf("%d:unordered", i))
			}
		}
		var ops []app.SettingOption
		if rapid.Bool().Draw(t, "oneoption") {
			ops = append(ops, app.SetConfigLoader(ls...))
		} else {
			ops = append(ops, app.SetConfigLoader(ls[0]))
			for _, l := range ls[1:] {
				ops = append(ops, app.AddConfigLoader(l))
			}
		}
		saved := os.Args
		os.Args = saved[:1]
		out := kit.RunApp(ops...)
		os.Args = saved
		desc := "loaders " + strings.Join(d, " ")
		if !out.OK() {
			t.Fatalf("C15: start failed: %v\n%s", out, desc)
		}
		// the class of the winner: unordered if any, else ordered, else priority; inside it the last added (unordered)
		// or any loader with the largest Order
		adm := map[int]bool{}
		for cls := 2; cls >= 0 && len(adm) == 0; cls-- {
			best := math.MinInt
			for i, s := range specs {
				if s.class != cls {
					continue
				}
				if cls == 2 {
					adm = map[int]bool{i: true} // later unordered loaders replace earlier ones
					continue
				}
				if s.order > best || len(adm) == 0 {
					best, adm = s.order, map[int]bool{i: true}
				} else if s.order == best {
					adm[i] = true
				}
			}
		}
		got, _ := canon(out.App.Get("c15o.k")).(int64)
		if !adm[int(got)] || out.App.Get("c15o.k") == nil {
			t.Fatalf("C15: c15o.k = %v, i.e. loader %v was merged last; by the loader sequence it must be one of %v\n%s", out.App.Get("c15o.k"), got, adm, desc)
		}
		for i := range specs {
			if v := canon(out.App.Get(fmt.Sprintf("c15o.own%d", i))); v != int64(100+i) {
				t.Fatalf("C15: the key only loader %d supplies reads %v, want %d\n%s", i, v, 100+i, desc)
			}
		}
		extreme := false
		for _, s := range specs {
			if s.class < 2 && (s.order <= math.MinInt+1 || s.order >= math.MaxInt-1) {
				extreme = true
			}
		}
		kit.Rec.Case(desc, n >= 2, map[bool]string{true: "ordered-loaders-extreme-orders", false: "ordered-loaders"}[extreme])
	})
}

// ---- two containers started through ioc.Run whose start-ups overlap -------------------------------------------------

type regDummy struct{ N int }

func (r *regDummy) Naming() string { return fmt.Sprintf("registered-dummy-%d", r.N) }

var regCount int

// TestOverlappingIocRuns (own process, VERIF_GLOBAL_SETTINGS=1: ioc.Register is process-wide): components are
// registered through ioc.Register, then two containers are started through ioc.Run so that the first is still applying
// its options while the second one starts and finishes. Each container ends up with exactly the sources its own
// options configured.
func TestOverlappingIocRuns(t *testing.T) {
	if os.Getenv("VERIF_GLOBAL_SETTINGS") != "1" {
		t.Skip("changes process-wide registrations: runs in a process of its own")
	}
	kit.Rec.Rule(rule)
	rapid.Check(t, func(t *rapid.T) {
		nreg := rapid.IntRange(0, 3).Draw(t, "registrations")
		for i := 0; i < nreg; i++ {
			regCount++
			ioc.Register(&regDummy{N: regCount}) // accumulates over the cases of this process: 0, 1, 2, 3, ... registrations so far
		}
		va, vb := rapid.IntRange(1, 99).Draw(t, "a"), rapid.IntRange(100, 199).Draw(t, "b")
		extraA := rapid.IntRange(0, 2).Draw(t, "extraoptsa")
		saved := os.Args
		os.Args = saved[:1]
		defer func() { os.Args = saved }()
		bDone := make(chan struct{})
		aEntered := make(chan struct{})
		optsA := []app.SettingOption{func(*app.App) { close(aEntered); <-bDone }}
		optsA = append(optsA, app.AddConfigLoader(loader.NewRawLoader([]byte(fmt.Sprintf("c15i:\n  shared: %d\n  onlya: %d\n", va, va)))))
		for i := 0; i < extraA; i++ {
			optsA = append(optsA, app.AddConfigLoader(loader.NewRawLoader([]byte(fmt.Sprintf("c15i:\n  extra%d: %d\n", i, va)))))
		}
		type res struct {
			a   *app.App
			err error
		}
		ra := make(chan res, 1)
		go func() {
			a, err := ioc.Run(optsA...)
			ra <- res{a, err}
		}()
		select {
		case <-aEntered:
		case <-time.After(20 * time.Second):
			t.Fatalf("C15: container A did not start applying its options within 20s")
		}
		var optsB []app.SettingOption
		for i := rapid.IntRange(0, 2).Draw(t, "leadingoptsb"); i > 0; i-- {
			optsB = append(optsB, func(*app.App) {})
		}
		optsB = append(optsB, app.AddConfigLoader(loader.NewRawLoader([]byte(fmt.Sprintf("c15i:\n  shared: %d\n  onlyb: %d\n", vb, vb)))))
		b, errB := ioc.Run(optsB...)
		close(bDone)
		var a res
		select {
		case a = <-ra:
		case <-time.After(20 * time.Second):
			t.Fatalf("C15: container A did not finish within 20s")
		}
		if errB != nil || a.err != nil {
			t.Fatalf("C15: overlapping ioc.Run: A %v, B %v", a.err, errB)
		}
		desc := fmt.Sprintf("overlapping ioc.Run: A{shared=%d,onlya,+%d} B{shared=%d,onlyb}", va, extraA, vb)
		if got := canon(a.a.Get("c15i.shared")); got != int64(va) || canon(a.a.Get("c15i.onlya")) != int64(va) || a.a.Get("c15i.onlyb") != nil {
			t.Fatalf("C15: %s: container A reads shared=%v onlya=%v onlyb=%v (its own options configured shared=%d onlya=%d and no onlyb)", desc, a.a.Get("c15i.shared"), a.a.Get("c15i.onlya"), a.a.Get("c15i.onlyb"), va, va)
		}
		for i := 0; i < extraA; i++ {
			if canon(a.a.Get(fmt.Sprintf("c15i.extra%d", i))) != int64(va) {
				t.Fatalf("C15: %s: container A lost the source that supplies extra%d", desc, i)
			}
		}
		if got := canon(b.Get("c15i.shared")); got != int64(vb) || canon(b.Get("c15i.onlyb")) != int64(vb) || b.Get("c15i.onlya") != nil {
			t.Fatalf("C15: %s: container B reads shared=%v onlyb=%v onlya=%v", desc, b.Get("c15i.shared"), b.Get("c15i.onlyb"), b.Get("c15i.onlya"))
		}
		kit.Rec.Case(desc, true, "overlapping-ioc-run")
	})
}

// TestLargeFile: a configuration file far beyond any buffer size (tens of thousands of lines) is read completely:
// keys at its end are visible, and where it redefines keys of an earlier source it wins.
func TestLargeFile(t *testing.T) {
	kit.Rec.Rule(rule)
	dir, err := os.MkdirTemp("", "c15big-")
	if err != nil {
		t.Skip("no temp dir")
	}
	defer os.RemoveAll(dir)
	for _, n := range []int{3000, 9000} {
		var sb strings.Builder
		sb.WriteString("c15big:\n")
		for i := 0; i < n; i++ {
			fmt.Fprintf(&sb, "  key%05d: v%05d\n", i, i)
		}
		p := filepath.Join(dir, fmt.Sprintf("big%d.yaml", n))
		if err := os.WriteFile(p, []byte(sb.String()), 0o644); err != nil {
			t.Skip("cannot write")
		}
		base := fmt.Sprintf("c15big:\n  key%05d: base\n  key00000: base\n  onlybase: 1\n", n-1)
		saved := os.Args
		os.Args = saved[:1]
		// a file loader is priority-ordered: a second FILE with the base values first, then the big file
		bp := filepath.Join(dir, fmt.Sprintf("base%d.yaml", n))
		_ = os.WriteFile(bp, []byte(base), 0o644)
		out := kit.RunApp(app.SetConfigLoader(loader.NewRawLoader([]byte("c15big:\n  raw: 1\n"))), app.SetConfig(p))
		os.Args = saved
		if !out.OK() {
			t.Fatalf("C15: start with a %d-line configuration file failed: %v", n, out)
		}
		for _, i := range []int{0, 1, n / 2, n - 2, n - 1} {
			if got := out.App.Get(fmt.Sprintf("c15big.key%05d", i)); got != fmt.Sprintf("v%05d", i) {
				kit.DumpReplay("c15-large-file", map[string]any{"lines": n, "key": i, "got": fmt.Sprint(got)})
				t.Fatalf("C15: configuration file with %d lines (%d bytes): key%05d reads %v, the file says v%05d", n, sb.Len(), i, got, i)
			}
		}
		if canon(out.App.Get("c15big.raw")) != int64(1) {
			t.Fatalf("C15: the key only the raw source supplies is gone")
		}
		kit.Rec.Case(fmt.Sprintf("large configuration file: %d lines, %d bytes", n, sb.Len()), true, "large-file")
	}
}
