package c03

import (
	"fmt"
	"github.com/go-kid/ioc/app"
	"github.com/go-kid/ioc/container/processors"
	"reflect"
	"sort"
	"strings"
	"testing"

	"pgregory.net/rapid"
	"verif/harness/graph"
	"verif/harness/kit"
	"verif/harness/model"
	"verif/harness/zoo"
)

func TestMain(m *testing.M) { kit.Main(m) }

const rule = "node-family scenarios whose wrapped components are consumed through interfaces only, with a wrap plan per component (early reference: no/wrap; before initialization: no/wrap; after initialization: no / new wrapper / the early wrapper again); random rich graphs plus every digraph on 2 pure nodes and selected 3-node shapes x all creation orders x all 12^n plans; oracle: success => one version per component across all holders and the lookup; non-trivial = a wrapped component lies on a cycle (so an early reference can be handed out) ; distinct by scenario shape + plan; since rounds 7/8 also an observer that looks a neighbour up from its after-instantiation callback (scenarios with a tolerated failed lookup are excluded and counted), an ordered substituting processor, a same-type copy on a cycle, and substitution during the preparation phase"

type fataler interface{ Fatalf(string, ...any) }

func decide(t fataler, s *graph.Scenario, plans map[int]graph.WrapPlan, tag string) {
	withObs := strings.Contains(tag, "+obs")
	in := s.Instantiate()
	wrap := &graph.WrapPP{Plan: map[string]graph.WrapPlan{}, IDOf: func(c any) int {
		if id, ok := in.IDs[reflect.ValueOf(c).Pointer()]; ok {
			return id
		}
		return -1
	}}
	var pl []string
	for id, p := range plans {
		n, _ := model.NameOf(in.Comps[id])
		wrap.Plan[n] = p
		pl = append(pl, fmt.Sprintf("%d:%v", id, p))
	}
	sort.Strings(pl)
	// when no plan wraps at early-reference time, the substituting post-processor may as well be a plain
	// ComponentPostProcessor (no instantiation-aware callbacks anywhere among the user components)
	plain := !withObs && strings.Contains(tag, "plainpp")
	for _, p := range plans {
		if p.Early != 0 || p.Inst != 0 || p.After == graph.WrapSame || p.After == graph.WrapUnlessEarly {
			plain = false
		}
	}
	switch {
	case plain:
		in.Extra = append(in.Extra, &graph.PlainWrapPP{Plan: wrap.Plan})
	case strings.Contains(tag, "+orderedwrap"):
		in.Extra = append(in.Extra, &graph.OrderedWrapPP{WrapPP: wrap})
	default:
		in.Extra = append(in.Extra, wrap)
	}
	// hand-wired components: some single-valued points already hold their (only) target before the start.
	// (Not combined with substitution before instantiation: such a component is never populated by the
	// container, so what its raw object holds is the caller's own wiring, not a version handed out.)
	if strings.Contains(tag, "prewired") {
		reg := map[string]any{}
		for _, c := range in.Comps {
			n, _ := model.NameOf(c)
			reg[n] = c
		}
		pg := model.Build(model.Population(reg, in.IDs))
		for _, c := range pg.Pop {
			for _, p := range pg.Points[c] {
				if !p.Multi && len(p.Cands) == 1 && p.Cands[0].Typ.AssignableTo(p.Field.Type) {
					p.FieldValue().Set(reflect.ValueOf(p.Cands[0].Obj))
				}
			}
		}
	}
	if withObs {
		nb := strings.Contains(tag, "+instlookup") // a tolerated failed lookup may be followed by another attempt: no once-per-name budget
		in.Extra = append(in.Extra, &graph.ObsPP{Tag: "c03", Log: in.Log, NoBudget: nb}, &graph.OrderedObsPP{ObsPP: graph.ObsPP{Tag: "c03o", Log: in.Log, OrderV: 1, NoBudget: nb}})
	}
	var looker *graph.ObsPP
	// a post-processor that resolves a collaborator programmatically while a component is being populated (its
	// after-instantiation callback asks the container for the next node by name; a failure is the processor's business)
	if strings.Contains(tag, "+instlookup") {
		looker = &graph.ObsPP{Tag: "c03-looker", Log: in.Log, InstLookup: map[string]string{}, NoBudget: true}
		for i := range s.Nodes {
			if (uint64(i)+s.OrdSeed)%3 != 0 {
				from, _ := model.NameOf(in.Comps[i])
				to, _ := model.NameOf(in.Comps[(i+1+int(s.OrdSeed%2))%len(s.Nodes)])
				looker.InstLookup[from] = to
			}
		}
		in.Extra = append(in.Extra, looker)
	}
	in.Run()
	desc := tag + " " + s.Shape() + " plans=" + strings.Join(pl, ",")
	if looker != nil {
		desc += fmt.Sprintf(" inst-lookups=%v", looker.InstLooked)
		for _, l := range looker.InstLooked {
			if strings.HasSuffix(l, "err=true") {
				// a creation failed inside the start and the failure was tolerated: whatever is created again afterwards
				// is the retry territory of the known findings (excluded by construction, counted)
				kit.Rec.Exclude("tolerated-failed-lookup-inside-start")
				kit.Rec.Case(desc, false, "tolerated-failed-lookup")
				return
			}
		}
	}
	if in.Out.Panic != nil {
		if b, ok := in.Out.Panic.(graph.BudgetExceeded); ok {
			t.Fatalf("C03: start-up did not terminate: %v\n%s", b, desc)
		}
		wrapsPointerReferenced := false
		for id := range plans {
			if id < len(s.Nodes) && s.Nodes[id].Variant == 'N' {
				wrapsPointerReferenced = true
			}
		}
		if wrapsPointerReferenced {
			// a substitute that does not fit a *N field: the start is refused (how - error or panic - is C09's subject)
			kit.Rec.Case(desc, false, "start-refused-substitute-does-not-fit")
			return
		}
		t.Fatalf("C03: start-up panicked: %v\n%s", in.Out.Panic, desc)
	}
	g := in.G
	reach := g.Reach()
	onCycle := false
	for id := range plans {
		c := in.Comp(id)
		if c != nil && reach[c][c] {
			onCycle = true
		}
	}
	labels := []string{}
	if onCycle {
		labels = append(labels, "wrapped-on-cycle")
	}
	if in.Out.Err != nil {
		labels = append(labels, "start-failed")
		if strings.Contains(in.Out.Err.Error(), "has been wrapped") {
			labels = append(labels, "stale-version-detected-by-container")
		}
		kit.Rec.Case(desc, onCycle, labels...)
		return
	}
	labels = append(labels, "start-succeeded")
	// by-name lookups first (they create the lazy components nobody needed so far) ...
	published := map[string]any{}
	for _, c := range g.Pop {
		if c.ID < 0 {
			continue
		}
		var got any
		var err error
		if p := kit.Protect(func() { got, err = in.Out.App.GetComponentByName(c.Name) }); p != nil || err != nil {
			// the creation of a lazy component was refused: no further lookups, they could implicitly
			// re-attempt it (known finding retry-after-refused-lazy-creation, excluded by construction)
			kit.Rec.Exclude("retry-after-refused-lazy-creation")
			break
		}
		if looker != nil {
			tolerated := false
			for _, l := range looker.InstLooked {
				if strings.HasSuffix(l, "err=true") {
					tolerated = true
				}
			}
			if tolerated {
				// a creation failed inside this (or an earlier) lookup and the failure was tolerated by the processor:
				// retry territory of the known findings (excluded by construction, counted)
				kit.Rec.Exclude("tolerated-failed-lookup-inside-start")
				kit.Rec.Case(desc, false, "tolerated-failed-lookup")
				return
			}
		}
		published[c.Name] = got
		if _, isW := got.(*zoo.W); isW {
			labels = append(labels, "final-version-is-wrapper")
		}
		// a substitution that the plan makes unconditionally (before instantiation, or a fresh wrapper after
		// initialization) is what the container publishes - not the object it replaced
		if pl, ok := wrap.Plan[c.Name]; ok && !plain && (pl.Inst == graph.WrapNew || pl.After == graph.WrapNew) {
			if _, isW := got.(*zoo.W); !isW {
				t.Fatalf("C03: %q is replaced by the post-processor (plan %v), yet the lookup returns the replaced object %T\n%s", c.Name, pl, got, desc)
			}
		}
	}
	if looker != nil {
		for _, l := range looker.InstLooked {
			if strings.HasSuffix(l, "err=true") {
				// (the same exclusion as above, for creations triggered by the lookups after the start)
				kit.Rec.Exclude("tolerated-failed-lookup-inside-start")
				kit.Rec.Case(desc, false, "tolerated-failed-lookup")
				return
			}
		}
	}
	// ... then what every holder that the container actually created and populated holds
	created := map[string]bool{}
	for id := range in.Comps {
		if in.WasCreated(id) {
			created[in.Comp(id).Name] = true
		}
	}
	for _, c := range g.Pop {
		if !created[c.Name] {
			continue // never populated by the container: whatever its fields hold is the caller's own wiring
		}
		if pl, ok := wrap.Plan[c.Name]; ok && pl.Inst != 0 {
			continue // substituted before instantiation: the raw object was never populated either
		}
		for _, p := range g.Points[c] {
			for _, sx := range graph.Observe(g, p) {
				tn := sx.TargetName(g)
				if tn == "" {
					t.Fatalf("C03: %v holds a foreign object %T\n%s", p, sx.Raw, desc)
				}
				got, ok := published[tn]
				if ok && sx.Raw != got {
					t.Fatalf("C03: start-up succeeded with mixed versions of %q: %s.%s holds %v, the container publishes %v\n%s\nreg %v ordmode %d seed %x\ntrace:\n%s", tn, c.Name, p.Field.Name, sx.Raw, got, desc, s.RegPerm, s.OrdMode, s.OrdSeed, in.Tracer.Dump(70))
				}
			}
		}
	}
	// ... and what lookups made from Init during the start were handed
	for i, b := range in.Behs {
		if b == nil || !created[in.Comp(i).Name] {
			continue
		}
		for _, r := range b.Looked {
			if r.Err != nil || r.Got == nil {
				continue
			}
			// Programmatic lookups are not injection points: the container does not know who called, so it cannot refuse a
			// start because of them (same as in Spring). What it does decide itself is which object to publish when the
			// ONLY substitution happened at early-reference time - then the early reference it handed to the lookup is
			// the final version. Other timings are outside the dependency-graph quantifier of the property.
			pl, wrapped := wrap.Plan[r.Name]
			if wrapped && (pl.Early != graph.WrapNew || pl.Before != 0 || pl.Inst != 0 || pl.After == graph.WrapNew) {
				continue
			}
			if pub, ok := published[r.Name]; ok && r.Got != pub {
				t.Fatalf("C03: start-up succeeded with mixed versions of %q: the lookup made by %s in its Init was handed %v, the container publishes %v\n%s", r.Name, in.Comp(i).Name, r.Got, pub, desc)
			}
			labels = append(labels, "init-time-lookup-checked")
		}
	}
	if len(wrap.EarlyW) > 0 {
		labels = append(labels, "early-wrapper-handed-out")
	}
	kit.Rec.Case(desc, onCycle, dedupLabels(labels)...)
}

func dedupLabels(xs []string) []string {
	m := map[string]bool{}
	var out []string
	for _, x := range xs {
		if !m[x] {
			m[x] = true
			out = append(out, x)
		}
	}
	return out
}

func genPlan(t *rapid.T) graph.WrapPlan {
	return graph.WrapPlan{
		Early:  rapid.IntRange(0, 1).Draw(t, "early"),
		Before: rapid.SampledFrom([]int{0, 0, 0, 1}).Draw(t, "before"),
		After:  rapid.IntRange(0, 3).Draw(t, "after"),
		Inst:   rapid.SampledFrom([]int{0, 0, 0, 0, 1}).Draw(t, "inst"),
	}
}

func TestRandom(t *testing.T) {
	kit.Rec.Rule(rule)
	rapid.Check(t, func(t *rapid.T) {
		s := graph.Gen(t, graph.GenOpts{MinNodes: 2, MaxNodes: 6, Variants: "NLLPPEH", Aliases: true, Lookups: true, Twins: true})
		plans := map[int]graph.WrapPlan{}
		for i, n := range s.Nodes {
			if n.Variant != 'N' && rapid.IntRange(0, 2).Draw(t, "wrapped") > 0 {
				plans[i] = genPlan(t)
			}
			// now and then a node that others may reference through its concrete pointer type (Pv *N) is substituted
			// as well: the substitute does not fit such a field, which must never end in a start that succeeds with
			// the raw object there
			if n.Variant == 'N' && rapid.IntRange(0, 5).Draw(t, "wrappedN") == 0 {
				plans[i] = genPlan(t)
			}
		}
		tag := "rich"
		if rapid.Bool().Draw(t, "withobs") {
			tag += "+obs"
		}
		if rapid.IntRange(0, 2).Draw(t, "plainpp") == 0 {
			tag += "+plainpp"
		}
		if rapid.IntRange(0, 3).Draw(t, "prewired") == 0 {
			tag += "+prewired"
		}
		if rapid.IntRange(0, 3).Draw(t, "instlookup") == 0 {
			tag += "+instlookup"
		}
		if rapid.IntRange(0, 2).Draw(t, "orderedwrap") == 0 {
			tag += "+orderedwrap" // the substituting processor is active while unordered post-processor nodes are prepared
		}
		decide(t, s, plans, tag)
	})
}

func TestRandomPure(t *testing.T) {
	kit.Rec.Rule(rule)
	rapid.Check(t, func(t *rapid.T) {
		s := graph.Gen(t, graph.GenOpts{MinNodes: 2, MaxNodes: 5, Variants: "QQSUH", Aliases: true, Lookups: true, Twins: true})
		plans := map[int]graph.WrapPlan{}
		for i := range s.Nodes {
			if rapid.IntRange(0, 2).Draw(t, "wrapped") > 0 {
				plans[i] = genPlan(t)
			}
		}
		tag := "pure"
		if rapid.IntRange(0, 2).Draw(t, "plainpp") == 0 {
			tag += "+plainpp"
		}
		if rapid.IntRange(0, 3).Draw(t, "prewired") == 0 {
			tag += "+prewired"
		}
		decide(t, s, plans, tag)
	})
}

// ---- exhaustive ---------------------------------------------------------------

var allPlans []graph.WrapPlan

func init() {
	for e := 0; e <= 1; e++ {
		for b := 0; b <= 1; b++ {
			for a := 0; a <= 2; a++ {
				allPlans = append(allPlans, graph.WrapPlan{Early: e, Before: b, After: a})
			}
		}
	}
}

type dumpT struct {
	failed bool
	msg    string
}

func (d *dumpT) Fatalf(f string, a ...any) { d.failed = true; d.msg = fmt.Sprintf(f, a...); panic(d) }

func perms(n int) [][]int {
	var out [][]int
	var rec func(cur []int, used int)
	rec = func(cur []int, used int) {
		if len(cur) == n {
			out = append(out, append([]int(nil), cur...))
			return
		}
		for i := 0; i < n; i++ {
			if used&(1<<i) == 0 {
				rec(append(cur, i), used|1<<i)
			}
		}
	}
	rec(nil, 0)
	return out
}

func enumerate(t *testing.T, n int, adjs []int) { enumeratePlans(t, n, adjs, allPlans) }

func enumeratePlans(t *testing.T, n int, adjs []int, allPlans []graph.WrapPlan) {
	shard, shards := kit.Shard()
	ps := perms(n)
	np := 1
	for i := 0; i < n; i++ {
		np *= len(allPlans)
	}
	total, k := 0, 0
	for _, adj := range adjs {
		for pi, perm := range ps {
			for pc := 0; pc < np; pc++ {
				k++
				if k%shards != shard {
					continue
				}
				s := &graph.Scenario{OrdMode: k % 2, OrdSeed: uint64(k)}
				plans := map[int]graph.WrapPlan{}
				x := pc
				for i := 0; i < n; i++ {
					m := 0
					for h := 0; h < n; h++ {
						if adj&(1<<(h*n+i)) != 0 {
							m |= 1 << h
						}
					}
					s.Nodes = append(s.Nodes, graph.NodeSpec{Idx: i, Variant: 'Q', Mask: m, Alias: string(rune('a'+perm[i])) + fmt.Sprint(i)})
					plans[i] = allPlans[x%len(allPlans)]
					x /= len(allPlans)
				}
				s.RegPerm = append([]int(nil), ps[k%len(ps)]...)
				d := &dumpT{}
				func() {
					defer func() {
						if r := recover(); r != nil && r != any(d) {
							panic(r)
						}
					}()
					decide(d, s, plans, fmt.Sprintf("exh%d", n))
				}()
				if d.failed {
					kit.DumpReplay(fmt.Sprintf("c03-exh-n%d-adj%d-perm%d-plan%d", n, adj, pi, pc), map[string]any{"n": n, "adj": adj, "perm": perm, "plancode": pc, "message": d.msg})
					t.Fatalf("%s", d.msg)
				}
				total++
			}
		}
	}
	kit.Rec.MarkExhaustive(fmt.Sprintf("%d digraph(s) on %d pure nodes x %d creation orders x %d wrap plans (shard %d/%d: %d runs)", len(adjs), n, len(ps), np, shard, shards, total))
}

func TestExhaustive2(t *testing.T) {
	var adjs []int
	for a := 0; a < 16; a++ {
		adjs = append(adjs, a)
	}
	enumerate(t, 2, adjs)
}

// 3-node shapes: adjacency bit h*3+i = edge h->i
func adj3(edges ...[2]int) int {
	a := 0
	for _, e := range edges {
		a |= 1 << (e[0]*3 + e[1])
	}
	return a
}

var shapes3 = []int{
	adj3([2]int{0, 1}, [2]int{1, 2}, [2]int{2, 0}),                                           // 3-cycle
	adj3([2]int{0, 1}, [2]int{1, 2}, [2]int{2, 0}, [2]int{0, 2}),                             // 3-cycle + chord
	adj3([2]int{0, 1}, [2]int{1, 0}, [2]int{1, 2}, [2]int{2, 1}),                             // two 2-cycles sharing a node
	adj3([2]int{0, 1}, [2]int{1, 0}, [2]int{2, 0}, [2]int{2, 1}),                             // 2-cycle with an outside holder
	adj3([2]int{0, 1}, [2]int{1, 2}, [2]int{2, 0}, [2]int{0, 0}),                             // 3-cycle with a self loop
	adj3([2]int{0, 1}, [2]int{0, 2}, [2]int{1, 0}, [2]int{1, 2}, [2]int{2, 0}, [2]int{2, 1}), // complete
}

func TestExhaustive3Quick(t *testing.T) { enumerate(t, 3, shapes3[:1]) }
func TestExhaustive3(t *testing.T)      { enumerate(t, 3, shapes3) }

// TestKnownRetryAfterRefusedLazyCreation replays the fixed witness of the known finding
// C03/retry-after-refused-lazy-creation and reports whether it still fails.
//
// History: lazy L1 and lazy L2 reference each other; L2 is wrapped after initialization.
// Start-up succeeds (nothing needs them). GetComponentByName(L2) is refused with the
// "has been wrapped" error - correct - but L1 stays published holding the raw L2 of the
// refused attempt. A second GetComponentByName(L2) then succeeds and publishes a wrapper:
// two versions of one singleton are live.
func TestKnownRetryAfterRefusedLazyCreation(t *testing.T) {
	s := &graph.Scenario{Nodes: []graph.NodeSpec{{Idx: 1, Variant: 'L'}, {Idx: 2, Variant: 'L', Alias: "t0"}}, NoPermut: true}
	in := s.Instantiate()
	wrap := &graph.WrapPP{Plan: map[string]graph.WrapPlan{"t0": {After: graph.WrapNew}}}
	in.Extra = append(in.Extra, wrap)
	in.Run()
	if !in.Out.OK() {
		kit.Rec.KnownWitness("retry-after-refused-lazy-creation", false, "start failed: "+in.Out.String())
		return
	}
	_, err1 := in.Out.App.GetComponentByName("t0")
	got2, err2 := in.Out.App.GetComponentByName("t0")
	l1 := in.Comps[0].(*zoo.L1)
	fails := err1 != nil && err2 == nil && l1.Nx != nil && any(l1.Nx) != got2
	kit.Rec.KnownWitness("retry-after-refused-lazy-creation", fails, fmt.Sprintf("first lookup err=%v; second lookup err=%v returns %v; L1.Nx holds %T", err1 != nil, err2, got2, l1.Nx))
}

// TestExhaustive3All: EVERY digraph on 3 pure nodes (self loops included) x all creation orders x all plans
// without before-initialization wrapping (early: no/wrap; after: no / new / the early wrapper) - 512 x 6 x 216 runs.
func TestExhaustive3All(t *testing.T) {
	var adjs []int
	for a := 0; a < 512; a++ {
		adjs = append(adjs, a)
	}
	var plans []graph.WrapPlan
	for _, p := range allPlans {
		if p.Before == 0 {
			plans = append(plans, p)
		}
	}
	enumeratePlans(t, 3, adjs, plans)
}

// TestRetryAfterInitFailure: all components are lazy, some fail their first initialisation, some are substituted
// (any plan). After the (trivially successful) start every component is looked up by name; a lookup that failed
// because an Init failed is tried once more. Whenever a name is finally published, every holder the container
// created AFTER that component's last failed attempt must hold exactly the published version - a stale-version
// error is the only other acceptable end. (Holders published before the failed attempt ended are the known
// finding C01/dependant-keeps-early-reference-of-failed-lazy-creation; a retry after a REFUSED creation is the
// known finding C03/retry-after-refused-lazy-creation: both are left out by construction.)
func TestRetryAfterInitFailure(t *testing.T) {
	kit.Rec.Rule(rule)
	knownStale := kit.IsKnown("dependant-keeps-early-reference-of-failed-lazy-creation")
	rapid.Check(t, func(t *rapid.T) {
		s := graph.Gen(t, graph.GenOpts{MinNodes: 2, MaxNodes: 5, Variants: "L", Aliases: true})
		plans := map[string]graph.WrapPlan{}
		var pl []string
		faulty := 0
		for i := range s.Nodes {
			if rapid.IntRange(0, 2).Draw(t, "failonce") == 0 {
				s.Nodes[i].FailInit = zoo.FailOnce
				faulty++
			}
		}
		in := s.Instantiate()
		in.ForceHook = true
		for i := range s.Nodes {
			if rapid.IntRange(0, 1).Draw(t, "wrapped") == 1 {
				p := graph.WrapPlan{Early: rapid.IntRange(0, 1).Draw(t, "early"), After: rapid.SampledFrom([]int{0, 1, 1, 2, 3}).Draw(t, "after")}
				n, _ := model.NameOf(in.Comps[i])
				plans[n] = p
				pl = append(pl, fmt.Sprintf("%d:%v", i, p))
			}
		}
		wrap := &graph.WrapPP{Plan: plans, IDOf: func(c any) int {
			if id, ok := in.IDs[reflect.ValueOf(c).Pointer()]; ok {
				return id
			}
			return -1
		}}
		in.Extra = append(in.Extra, wrap)
		in.Run()
		desc := "retry-after-init-failure " + s.Shape() + " plans=" + strings.Join(pl, ",")
		if !in.Out.OK() {
			t.Fatalf("C03: nothing is eager, yet start-up failed: %v\n%s", in.Out, desc)
		}
		g := in.G
		initFailures := func() int {
			n := 0
			for _, b := range in.Behs {
				if b != nil && b.FailInit == zoo.FailOnce && b.InitCalls >= 1 {
					n++
				}
			}
			return n
		}
		published := map[string]any{}
		var hist []string
		retried := false
	lookups:
		for _, c := range g.Pop {
			if c.ID < 0 {
				continue
			}
			for attempt := 0; attempt < 3; attempt++ {
				before := initFailures()
				var got any
				var err error
				if p := kit.Protect(func() { got, err = in.Out.App.GetComponentByName(c.Name) }); p != nil {
					t.Fatalf("C03: lookup of %q panicked: %v\n%s", c.Name, p, desc)
				}
				hist = append(hist, fmt.Sprintf("%s:%v", c.Name, err != nil))
				if err == nil {
					published[c.Name] = got
					break
				}
				if initFailures() == before {
					// refused for another reason (stale version): a further attempt is the other known finding
					kit.Rec.Exclude("retry-after-refused-lazy-creation")
					break lookups
				}
				retried = true
			}
		}
		lastFail, okAt := map[string]int{}, map[string]int{}
		for i, e := range in.Tracer.Events {
			if e.Op == "create-exit" {
				if e.Err {
					lastFail[e.Name] = i + 1
				} else if e.Flag {
					okAt[e.Name] = i + 1
				}
			}
		}
		checked := 0
		for id := range in.Comps {
			c := in.Comp(id)
			if okAt[c.Name] == 0 {
				continue // not created (or not since its last failure)
			}
			if okAt[c.Name] < lastFail[c.Name] {
				continue
			}
			for _, p := range g.Points[c] {
				for _, sx := range graph.Observe(g, p) {
					tn := sx.TargetName(g)
					pub, ok := published[tn]
					if !ok || tn == "" {
						continue
					}
					if okAt[c.Name] < lastFail[tn] {
						if knownStale {
							kit.Rec.Exclude("dependant-keeps-early-reference-of-failed-lazy-creation")
							continue
						}
					}
					checked++
					if sx.Raw != pub {
						t.Fatalf("C03: mixed versions of %q after a retried creation: %s.%s holds %v, the container publishes %v\nlookups %v\n%s\ntrace:\n%s", tn, c.Name, p.Field.Name, sx.Raw, pub, hist, desc, in.Tracer.Dump(80))
					}
				}
			}
		}
		labels := []string{"retry-history"}
		if retried {
			labels = append(labels, "lookup-retried-after-init-failure")
		}
		kit.Rec.Case(desc+" | "+strings.Join(hist, ","), retried && checked > 0 && len(plans) > 0, labels...)
	})
}

// ---------------------------------------------------------------------------------------------------
// Known finding (filed under C01 and C03) dependant-keeps-early-reference-of-failed-lazy-creation: fixed witness.
//
// All components are lazy; "k-a" is proxied by an auto-proxy style post-processor (a fresh proxy whenever an
// early reference is requested; the container publishes the early reference). k-a wires k-b, k-c, k-d; k-b and
// k-d wire k-a back; k-c fails its first initialisation.
// Lookup 1 of k-a: k-b receives early proxy #1 of k-a and is published; k-c fails; the creation of k-a fails.
// Lookup 2 of k-a: k-b is taken as published, k-c succeeds, k-d receives early proxy #2, which is published.
// k-b keeps proxy #1 of the failed attempt: two versions of k-a are live.

type KI interface{ isKA() }
type KA struct {
	B *KB `wire:""`
	C *KC `wire:""`
	D *KD `wire:""`
}

func (*KA) isKA()          {}
func (*KA) LazyInit()      {}
func (*KA) Naming() string { return "k-a" }

type KB struct {
	A KI `wire:""`
}

func (*KB) LazyInit() {}

type KC struct{ inits int }

func (*KC) LazyInit() {}
func (c *KC) Init() error {
	c.inits++
	if c.inits == 1 {
		return fmt.Errorf("first initialisation fails")
	}
	return nil
}

type KD struct {
	A KI `wire:""`
}

func (*KD) LazyInit() {}

type KProxy struct {
	Target any
	N      int
}

func (*KProxy) isKA() {}

type kProxyPP struct {
	processors.DefaultInstantiationAwareComponentPostProcessor
	n    int
	last *KProxy
}

func (p *kProxyPP) GetEarlyBeanReference(c any, name string) (any, error) {
	if name != "k-a" {
		return c, nil
	}
	p.n++
	p.last = &KProxy{Target: c, N: p.n}
	return p.last, nil
}

func TestKnownStaleEarlyReferenceAfterFailedCreation(t *testing.T) {
	const class = "dependant-keeps-early-reference-of-failed-lazy-creation"
	a, b, c, d := &KA{}, &KB{}, &KC{}, &KD{}
	out := kit.RunApp(app.SetComponents(a, b, c, d, &kProxyPP{}))
	if !out.OK() {
		kit.Rec.KnownWitness(class, false, "start failed: "+out.String())
		return
	}
	_, err1 := out.App.GetComponentByName("k-a")
	got2, err2 := out.App.GetComponentByName("k-a")
	fails := err1 != nil && err2 == nil && b.A != nil && any(b.A) != got2 && d.A != nil && any(d.A) == got2
	kit.Rec.KnownWitness(class, fails, fmt.Sprintf("lookup 1 err=%v; lookup 2 err=%v returns %v; k-b holds %v, k-d holds %v", err1 != nil, err2, got2, b.A, d.A))
	t.Logf("witness fails=%v: lookup 1 err=%v; lookup 2 err=%v returns %v; k-b holds %v, k-d holds %v", fails, err1, err2, got2, b.A, d.A)
}

// ---------------------------------------------------------------------------------------------------
// Substitution by ANOTHER INSTANCE OF THE SAME TYPE (a configured copy - the only substitute a pointer-typed field
// can take) on a cycle: either the start is refused, or every holder and the lookup see the one final version.

type STA struct {
	Tag string
	B   *STB `wire:""`
}
type STB struct {
	Tag string
	A   *STA `wire:""`
}

func (*STA) Naming() string { return "st-a" }
func (*STB) Naming() string { return "st-b" }

type stCopyPP struct {
	target string // "st-a" | "st-b"
	when   string // "after" | "before"
	made   []any
}

func (p *stCopyPP) copyOf(c any, name string) any {
	if name != p.target {
		return c
	}
	switch x := c.(type) {
	case *STA:
		cp := *x
		cp.Tag = "copy"
		p.made = append(p.made, &cp)
		return &cp
	case *STB:
		cp := *x
		cp.Tag = "copy"
		p.made = append(p.made, &cp)
		return &cp
	}
	return c
}
func (p *stCopyPP) PostProcessBeforeInitialization(c any, n string) (any, error) {
	if p.when == "before" {
		return p.copyOf(c, n), nil
	}
	return c, nil
}
func (p *stCopyPP) PostProcessAfterInitialization(c any, n string) (any, error) {
	if p.when == "after" {
		return p.copyOf(c, n), nil
	}
	return c, nil
}

func TestStaticSameTypeCopyOnCycle(t *testing.T) {
	kit.Rec.Rule(rule)
	for _, target := range []string{"st-a", "st-b"} {
		for _, when := range []string{"after", "before"} {
			a, b := &STA{Tag: "registered"}, &STB{Tag: "registered"}
			pp := &stCopyPP{target: target, when: when}
			out := kit.RunApp(app.SetComponents(a, b, pp))
			desc := fmt.Sprintf("cycle st-a <-> st-b, a copy of %s is returned %s initialization", target, when)
			if out.Panic != nil {
				t.Fatalf("C03: start-up panicked: %v (%s)", out.Panic, desc)
			}
			if out.Err != nil {
				kit.Rec.Case(desc, true, "same-type-copy-on-cycle", "refused")
				continue
			}
			finalA, _ := out.App.GetComponentByName("st-a")
			finalB, _ := out.App.GetComponentByName("st-b")
			fa, _ := finalA.(*STA)
			fb, _ := finalB.(*STB)
			if fa == nil || fb == nil {
				t.Fatalf("C03: lookups after the successful start return %T / %T (%s)", finalA, finalB, desc)
			}
			// every holder of st-a / st-b - the registered objects, the copies, the published versions - refers to the
			// published version
			holdersOfA := []*STB{b, fb}
			holdersOfB := []*STA{a, fa}
			for _, m := range pp.made {
				switch x := m.(type) {
				case *STA:
					holdersOfB = append(holdersOfB, x)
				case *STB:
					holdersOfA = append(holdersOfA, x)
				}
			}
			for _, h := range holdersOfA {
				if h.A != nil && h.A != fa && (h == fb || h == b) {
					kit.DumpReplay("c03-same-type-copy", map[string]any{"scenario": desc, "holder": fmt.Sprintf("%p %+v", h, *h), "published": fmt.Sprintf("%p %+v", fa, *fa)})
					t.Fatalf("C03: the start succeeded, the container publishes st-a = %p (%s), yet st-b (%p) holds %p (%s): a stale version survives (%s)", fa, fa.Tag, h, h.A, h.A.Tag, desc)
				}
			}
			for _, h := range holdersOfB {
				if h.B != nil && h.B != fb && (h == fa || h == a) {
					kit.DumpReplay("c03-same-type-copy", map[string]any{"scenario": desc, "holder": fmt.Sprintf("%p %+v", h, *h), "published": fmt.Sprintf("%p %+v", fb, *fb)})
					t.Fatalf("C03: the start succeeded, the container publishes st-b = %p (%s), yet st-a (%p) holds %p (%s): a stale version survives (%s)", fb, fb.Tag, h, h.B, h.B.Tag, desc)
				}
			}
			kit.Rec.Case(desc, true, "same-type-copy-on-cycle", "started")
		}
	}
}

// ---------------------------------------------------------------------------------------------------
// Substitution while the post-processors themselves are being prepared: a (non-lazy) post-processor component wires
// a collaborator that is the first-created member of a cycle; another post-processor - ordered, so already active -
// substitutes that collaborator. The stale-version rule holds in that phase as in any other.

type PrepIf interface{ isPrep() }
type PrepA struct {
	B PrepIf `wire:"prep-b"`
}
type PrepB struct {
	A PrepIf `wire:"prep-a"`
}
type PrepW struct{ Target any }

func (*PrepA) isPrep()        {}
func (*PrepB) isPrep()        {}
func (*PrepW) isPrep()        {}
func (*PrepA) Naming() string { return "prep-a" }
func (*PrepB) Naming() string { return "prep-b" }

type prepHolderPP struct {
	Dep PrepIf `wire:"prep-a"`
}

func (*prepHolderPP) Naming() string                                               { return "prep-holder-pp" }
func (*prepHolderPP) PostProcessBeforeInitialization(c any, n string) (any, error) { return c, nil }
func (*prepHolderPP) PostProcessAfterInitialization(c any, n string) (any, error)  { return c, nil }

type prepSubstPP struct {
	processors.DefaultInstantiationAwareComponentPostProcessor
	mode string // "after" | "early" | "both-same"
	w    *PrepW
}

func (*prepSubstPP) Naming() string { return "prep-subst-pp" }
func (*prepSubstPP) Order() int     { return -5 }
func (p *prepSubstPP) GetEarlyBeanReference(c any, n string) (any, error) {
	if n == "prep-a" && (p.mode == "early" || p.mode == "both-same") {
		p.w = &PrepW{Target: c}
		return p.w, nil
	}
	return c, nil
}
func (p *prepSubstPP) PostProcessAfterInitialization(c any, n string) (any, error) {
	if n == "prep-a" {
		switch p.mode {
		case "after":
			return &PrepW{Target: c}, nil
		case "both-same":
			if p.w != nil {
				return p.w, nil
			}
			return &PrepW{Target: c}, nil
		}
	}
	return c, nil
}

func TestStaticSubstitutionDuringPreparation(t *testing.T) {
	kit.Rec.Rule(rule)
	for _, mode := range []string{"after", "early", "both-same", "none"} {
		for _, withHolder := range []bool{true, false} {
			a, b, h := &PrepA{}, &PrepB{}, &prepHolderPP{}
			comps := []any{a, b, &prepSubstPP{mode: mode}}
			if withHolder {
				comps = append(comps, h)
			}
			out := kit.RunApp(app.SetComponents(comps...))
			desc := fmt.Sprintf("prep-a <-> prep-b; prep-a substituted (%s) by an ordered post-processor; a post-processor component wires prep-a: %v", mode, withHolder)
			if out.Panic != nil {
				t.Fatalf("C03: start-up panicked: %v (%s)", out.Panic, desc)
			}
			if out.Err != nil {
				kit.Rec.Case(desc, true, "substitution-during-preparation", "refused")
				continue
			}
			final, _ := out.App.GetComponentByName("prep-a")
			holders := map[string]any{"prep-b.A": b.A}
			if withHolder {
				holders["prep-holder-pp.Dep"] = h.Dep
			}
			for where, got := range holders {
				if got != final {
					kit.DumpReplay("c03-substitution-during-preparation", map[string]any{"scenario": desc, "holder": where, "holds": fmt.Sprintf("%T %p", got, got), "published": fmt.Sprintf("%T %p", final, final)})
					t.Fatalf("C03: the start succeeded, the container publishes prep-a = %T %p, yet %s holds %T %p: a stale version survives (%s)", final, final, where, got, got, desc)
				}
			}
			kit.Rec.Case(desc, true, "substitution-during-preparation", "started")
		}
	}
}
