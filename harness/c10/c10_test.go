package c10

import (
	"fmt"
	"github.com/go-kid/ioc/app"
	"github.com/go-kid/ioc/component_definition"
	"github.com/go-kid/ioc/container"
	"github.com/go-kid/ioc/container/factory"
	"github.com/go-kid/ioc/container/support"
	"math"
	"reflect"
	"runtime"
	"sort"
	"strings"
	"testing"
	"verif/harness/zoo"

	"pgregory.net/rapid"
	"verif/harness/graph"
	"verif/harness/kit"
	"verif/harness/model"
	"verif/harness/pop"
)

func TestMain(m *testing.M) { kit.Main(m) }

const rule = "a fixed component set (provider populations with ties, Primary/unnamed/qualifier attributes and holders that are candidates of their own points; node-family graphs) is started r times (quick 6, thorough 16) on fresh instances, each time with an independently drawn registration order and registry enumeration order (fixed ranks, per-call reshuffle, or the runtime's own sync.Map order); oracle: same success/failure in all runs, and every point receives the same component(s) in all runs unless the reference model ranks several candidates equally, in which case every value lies in that tied set; non-trivial = the scenario has a tied point or a holder that is its own candidate, and >=3 distinct orders were applied; distinct by scenario shape; since round 7 also zero-size providers and custom names equal to the bare type name of another node; after-initialization-only decorators are excluded (known finding)"

func reps() int {
	if kit.Tier() == "thorough" {
		return 16
	}
	return 6
}

type obsRun struct {
	ok     bool
	out    string
	points map[string][]string // point key -> sorted target names
	g      *model.Graph
	order  string
}

func observe(in *graph.Instance) obsRun {
	r := obsRun{ok: in.Out.Err == nil, out: in.Out.String(), points: map[string][]string{}, g: in.G}
	if in.Out.Err != nil {
		return r
	}
	for _, c := range in.G.Pop {
		if c.ID < 0 {
			continue
		}
		for _, p := range in.G.Points[c] {
			var names []string
			for _, s := range graph.Observe(in.G, p) {
				// by component: whether a proxy or the raw object arrives may depend on where a cycle is entered
				n := s.TargetName(in.G)
				if n == "" {
					n = s.String()
				}
				names = append(names, n)
			}
			sort.Strings(names)
			r.points[fmt.Sprintf("%d.%s", c.ID, p.Field.Name)] = names
		}
	}
	return r
}

type fataler interface{ Fatalf(string, ...any) }

func compare(t fataler, desc string, runs []obsRun) (labels []string, nontrivial bool) {
	g0 := runs[0].g
	verdict := g0.WiringVerdict()
	orders := map[string]bool{}
	for _, r := range runs {
		orders[r.order] = true
	}
	// outcome
	if verdict != model.Either {
		for i, r := range runs[1:] {
			if r.ok != runs[0].ok {
				t.Fatalf("C10: the same component set started in run 0 (%s) and %s in run %d (%s) - only orders differ\nscenario: %s\norders: %q vs %q", runs[0].out, map[bool]string{true: "started", false: "failed"}[r.ok], i+1, r.out, desc, runs[0].order, r.order)
			}
		}
	} else {
		labels = append(labels, "outcome-tie-dependent")
	}
	// tied sets by point key, from the model
	tied := map[string][]string{}
	hasTie, selfCand := false, false
	must, _ := g0.Created()
	tieDependent := map[string]bool{} // points of lazy components that only a tied point may pull in
	for _, c := range g0.Pop {
		if c.ID < 0 {
			continue
		}
		if !must[c] {
			for _, p := range g0.Points[c] {
				tieDependent[fmt.Sprintf("%d.%s", c.ID, p.Field.Name)] = true
			}
		}
		for _, p := range g0.Points[c] {
			key := fmt.Sprintf("%d.%s", c.ID, p.Field.Name)
			if !p.Multi && len(p.Top) > 1 {
				hasTie = true
				for _, x := range p.Top {
					tied[key] = append(tied[key], x.Name)
				}
			}
			if len(p.All) > len(p.Cands) {
				selfCand = true
			}
		}
	}
	var okRuns []obsRun
	for _, r := range runs {
		if r.ok {
			okRuns = append(okRuns, r)
		}
	}
	if len(okRuns) > 1 {
		for key, first := range okRuns[0].points {
			for i, r := range okRuns[1:] {
				other := r.points[key]
				if strings.Join(first, ",") == strings.Join(other, ",") {
					continue
				}
				if tieDependent[key] && (len(first) == 0 || len(other) == 0) {
					labels = append(labels, "lazy-creation-tie-dependent")
					continue
				}
				ts, isTied := tied[key]
				if !isTied {
					t.Fatalf("C10: point %s received %v in one run and %v in run %d although its candidates are not tied\nscenario: %s\norders: %q vs %q", key, first, other, i+1, desc, okRuns[0].order, r.order)
				}
				for _, v := range append(append([]string{}, first...), other...) {
					if !has(ts, v) {
						t.Fatalf("C10: tied point %s received %s which is outside the tied set %v\nscenario: %s", key, v, ts, desc)
					}
				}
				labels = append(labels, "tie-varied")
			}
		}
	}
	if hasTie {
		labels = append(labels, "has-tie")
	}
	if selfCand {
		labels = append(labels, "holder-is-own-candidate")
	}
	if runs[0].ok {
		labels = append(labels, "started")
	} else {
		labels = append(labels, "failed")
	}
	return dedup(labels), (hasTie || selfCand) && len(orders) >= 3
}

func has(xs []string, s string) bool {
	for _, x := range xs {
		if x == s {
			return true
		}
	}
	return false
}

func dedup(xs []string) []string {
	m := map[string]bool{}
	var out []string
	for _, x := range xs {
		if !m[x] {
			m[x] = true
			out = append(out, x)
		}
	}
	return out
}

var kinds = []int{0, 1, 2, 2, 3, 3, 4, 6, 7, 8, 8, 9, 10, 11, 13, 14, 20, 21} // 13, 14, 20, 21: zero-size (stateless) providers
var names = []string{"n1", "n2", "n3", "n4", "n5", "n6", "n7"}
var quals = []string{"", "g1", "g2", "g1"}

func genField(t *rapid.T, provs []pop.ProvSpec) pop.FieldSpec {
	typ := pop.DrawFieldType(t, provs, rapid.IntRange(0, 3).Draw(t, "slice") == 0)
	args := ""
	switch rapid.IntRange(0, 3).Draw(t, "qkind") {
	case 1:
		args += ",qualifier=g1 g2"
	case 2:
		args += ",qualifier=g1"
	}
	if rapid.IntRange(0, 2).Draw(t, "optional") > 0 {
		args += ",required=false"
	}
	if rapid.IntRange(0, 4).Draw(t, "funcpoint") == 0 {
		return pop.FieldSpec{Type: typ, Tag: fmt.Sprintf(`func:"Comp,returns=*%s"`, args)}
	}
	val := ""
	if rapid.IntRange(0, 3).Draw(t, "absentplaceholder") == 0 {
		val = "${c10.absent.name}" // resolves to nothing: the point is wired by type
	}
	return pop.FieldSpec{Type: typ, Tag: fmt.Sprintf(`wire:"%s%s"`, val, args)}
}

func TestPopulations(t *testing.T) {
	kit.Rec.Rule(rule)
	rapid.Check(t, func(t *rapid.T) {
		s := &pop.Scenario{}
		s.Provs = pop.GenProviders(t, pop.ProvOpts{Kinds: kinds, Min: 2, Max: 8, Quals: quals, Names: names})
		nc := rapid.IntRange(1, 2).Draw(t, "ncons")
		for k := 0; k < nc; k++ {
			nf := rapid.IntRange(1, 3).Draw(t, "nfields")
			var c pop.ConsSpec
			for i := 0; i < nf; i++ {
				c.Fields = append(c.Fields, genField(t, s.Provs))
			}
			for nd := rapid.SampledFrom([]int{0, 1, 1, 2}).Draw(t, "ndecoys"); nd > 0; nd-- {
				pos := rapid.IntRange(0, len(c.Fields)).Draw(t, "decoypos")
				c.Fields = append(c.Fields[:pos], append([]pop.FieldSpec{pop.DrawDecoyField(t)}, c.Fields[pos:]...)...)
			}
			s.Cons = append(s.Cons, c)
		}
		var runs []obsRun
		firstSeen := ""
		for i := 0; i < reps(); i++ {
			s.Finish(t)
			in := s.Instantiate()
			if i == reps()-1 {
				in.S.NoPermut = true // the runtime's own map order
			}
			see := &SeePP{}
			in.Extra = append(in.Extra, see)
			in.Run()
			if in.Out.Panic != nil {
				t.Fatalf("C10: start-up panicked: %v\n%s", in.Out.Panic, s.Shape())
			}
			// what a factory post-processor sees of the registered components does not depend on the order either
			if i == 0 {
				firstSeen = strings.Join(see.seen, ",")
			} else if now := strings.Join(see.seen, ","); now != firstSeen {
				t.Fatalf("C10: a factory post-processor looking at the registered components saw [%s] in run 0 and [%s] in run %d - only orders differ (reg=%v mode=%d seed=%x)\n%s", firstSeen, now, i, s.RegPerm, s.OrdMode, s.OrdSeed, s.Shape())
			}
			r := observe(in)
			r.order = fmt.Sprintf("reg=%v mode=%d seed=%x nat=%v", s.RegPerm, s.OrdMode, s.OrdSeed, in.S.NoPermut)
			runs = append(runs, r)
		}
		labels, nt := compare(t, s.Shape(), runs)
		kit.Rec.Case(s.Shape(), nt, labels...)
	})
}

// SeePP is a factory post-processor that looks at the registered components (an auto-configuration deciding what is
// already there): whatever order the registry enumerates in, it sees all of them.
type SeePP struct{ seen []string }

func (*SeePP) Naming() string { return "see-pp" }
func (p *SeePP) PostProcessComponentFactory(f container.Factory) error {
	for n := range f.GetRegisteredComponents() {
		p.seen = append(p.seen, n)
	}
	sort.Strings(p.seen)
	return nil
}

// PlainPP: a user post-processor that is NOT instantiation-aware (only before / after initialization).
type PlainPP struct{}

func (*PlainPP) Naming() string                                               { return "plain-pp" }
func (*PlainPP) PostProcessBeforeInitialization(c any, n string) (any, error) { return c, nil }
func (*PlainPP) PostProcessAfterInitialization(c any, n string) (any, error)  { return c, nil }

func TestGraphs(t *testing.T) {
	kit.Rec.Rule(rule)
	rapid.Check(t, func(t *rapid.T) {
		s := graph.Gen(t, graph.GenOpts{MinNodes: 2, MaxNodes: 6, Variants: "NNRLPEX", Aliases: true, Selfs: true, ShortAliases: true})
		// sometimes user post-processors take part: a plain one and one that proxies consistently at early-reference time
		withPP := rapid.IntRange(0, 2).Draw(t, "withpp") == 0
		wrapIdx := map[int]bool{}
		// (a processor that decorates after initialization ONLY is left out by construction: with one on a cycle the
		// outcome depends on the enumeration order - known finding after-init-decorator-outcome-depends-on-enumeration-order,
		// witness TestKnownDecoratorOutcomeDependsOnEnumerationOrder)
		if withPP {
			for i, n := range s.Nodes {
				if n.Variant != 'N' && rapid.Bool().Draw(t, "wrap") {
					wrapIdx[i] = true
				}
			}
		}
		var runs []obsRun
		for i := 0; i < reps(); i++ {
			graph.DrawOrders(t, s)
			s.NoPermut = i == reps()-1
			in := s.Instantiate()
			if withPP {
				w := &graph.WrapPP{Plan: map[string]graph.WrapPlan{}}
				for id := range wrapIdx {
					nm, _ := model.NameOf(in.Comps[id])
					// auto-proxy idiom: proxied at early-reference time if a cycle asks for it, otherwise after initialization
					w.Plan[nm] = graph.WrapPlan{Early: graph.WrapNew, After: graph.WrapUnlessEarly}
				}
				in.Extra = append(in.Extra, w, &PlainPP{})
			}
			in.Run()
			if in.Out.Panic != nil {
				t.Fatalf("C10: start-up panicked: %v\n%s", in.Out.Panic, s.Shape())
			}
			r := observe(in)
			r.order = fmt.Sprintf("reg=%v mode=%d seed=%x nat=%v", s.RegPerm, s.OrdMode, s.OrdSeed, s.NoPermut)
			runs = append(runs, r)
		}
		labels, nt := compare(t, "graph "+s.Shape(), runs)
		kit.Rec.Case("graph "+s.Shape(), nt, labels...)
	})
}

// ---- scan phase: a user definition-registry post-processor that rejects some components --------

type Scanner struct {
	reject map[string]bool
	yields map[string]int
	gates  map[string]chan struct{} // owned schedule: the call for a component returns only after its gate opened
}

func (s *Scanner) Naming() string { return "user-scanner" }
func (s *Scanner) PostProcessDefinitionRegistry(registry container.DefinitionRegistry, component any, name string) error {
	for i := 0; i < s.yields[name]; i++ {
		runtime.Gosched()
	}
	if g, ok := s.gates[name]; ok {
		<-g
	}
	if s.reject[name] {
		return fmt.Errorf("scanner rejects %s", name)
	}
	return nil
}

func TestScanners(t *testing.T) {
	kit.Rec.Rule(rule)
	rapid.Check(t, func(t *rapid.T) {
		s := graph.Gen(t, graph.GenOpts{MinNodes: 2, MaxNodes: 6, Variants: "NNLP", Aliases: true})
		probe := s.Instantiate()
		var names []string
		for _, c := range probe.Comps {
			n, _ := model.NameOf(c)
			names = append(names, n)
		}
		names = append(names, "github.com/go-kid/ioc/app/App", "user-scanner")
		reject := map[string]bool{}
		nrej := rapid.IntRange(0, 2).Draw(t, "nreject")
		for i := 0; i < nrej; i++ {
			reject[rapid.SampledFrom(names).Draw(t, "reject")] = true
		}
		outcomes := map[bool]int{}
		var firstOut string
		for i := 0; i < reps(); i++ {
			graph.DrawOrders(t, s)
			in := s.Instantiate()
			sc := &Scanner{reject: reject, yields: map[string]int{}}
			for _, n := range names {
				sc.yields[n] = rapid.IntRange(0, 40).Draw(t, "yield")
			}
			// every second run the harness owns the finishing order of the scanner's calls: gates are opened one
			// by one in a drawn order (independently of whether the call was entered, so a sequential scan is fine)
			var order []string
			if i%2 == 1 {
				sc.gates = map[string]chan struct{}{}
				for _, n := range names {
					sc.gates[n] = make(chan struct{})
				}
				order = rapid.Permutation(append([]string{}, names...)).Draw(t, "gateorder")
				go func() {
					for _, n := range order {
						for y := 0; y < 10; y++ {
							runtime.Gosched()
						}
						close(sc.gates[n])
					}
				}()
			}
			in.Extra = append(in.Extra, sc)
			in.Run()
			if in.Out.Panic != nil {
				t.Fatalf("C10: start-up panicked: %v\n%s", in.Out.Panic, s.Shape())
			}
			ok := in.Out.Err == nil
			outcomes[ok]++
			if firstOut == "" {
				firstOut = in.Out.String()
			}
			if ok == (len(reject) > 0) {
				t.Fatalf("C10: the definition scanner rejects %v; run %d %s (schedule of the parallel scanning phase: yields %v, gate order %v) - the outcome must not depend on which scanning goroutine finishes last\nscenario: %s", keysOf(reject), i, map[bool]string{true: "started although a component was rejected", false: "failed although nothing was rejected: " + in.Out.String()}[ok], sc.yields, order, s.Shape())
			}
		}
		desc := fmt.Sprintf("scan %s reject=%v", s.Shape(), keysOf(reject))
		kit.Rec.Case(desc, len(reject) > 0, "scanner", fmt.Sprintf("rejects-%d", len(reject)))
	})
}

func keysOf(m map[string]bool) []string {
	var k []string
	for n := range m {
		k = append(k, n)
	}
	sort.Strings(k)
	return k
}

// ---- two distinct components that claim one name and are deeply equal at registration time ---------

func TestDuplicatePair(t *testing.T) {
	kit.Rec.Rule(rule)
	rapid.Check(t, func(t *rapid.T) {
		kind := rapid.SampledFrom([]int{0, 2, 3}).Draw(t, "kind")
		alias := rapid.SampledFrom([]string{"dup", ""}).Draw(t, "alias")
		outcomes := map[string]int{}
		var first string
		for i := 0; i < reps(); i++ {
			shared := &zoo.Beh{ID: 0, Alias: alias, Mask: "g1"} // both instances wrap the same data: deeply equal
			w1 := zoo.ProviderKinds[kind].New(shared)
			w2 := zoo.ProviderKinds[kind].New(shared)
			cons := reflect.New(pop.ConsumerType(0, pop.ConsSpec{Fields: []pop.FieldSpec{{Type: "[]IAll", Tag: `wire:",required=false"`}}}))
			comps := rapid.Permutation([]any{w1, w2, cons.Interface(), zoo.ProviderKinds[1].New(&zoo.Beh{ID: 5})}).Draw(t, "order")
			out := kit.RunApp(app.SetComponents(comps...))
			o := "started"
			switch {
			case out.Panic != nil:
				o = "rejected(panic)"
			case out.Err != nil:
				o = "rejected(error)"
			default:
				all := cons.Elem().Field(1)
				for k := 0; k < all.Len(); k++ {
					switch all.Index(k).Interface() {
					case w1:
						o += "+first"
					case w2:
						o += "+second"
					}
				}
			}
			outcomes[o]++
			if first == "" {
				first = o
			}
		}
		if len(outcomes) > 1 {
			t.Fatalf("C10: two distinct components claim one name; depending only on the registration order the start-up outcome / the component that is wired differs: %v", outcomes)
		}
		kit.Rec.Case(fmt.Sprintf("duplicate-pair kind=%d alias=%q -> %s", kind, alias, first), true, "duplicate-pair")
	})
}

// ---- runners whose Orders are far apart: which one runs first must not depend on registration order ----

type orderedRunner struct {
	name  string
	order int
	prio  bool
	state *[]string
	needs string
}

func (r *orderedRunner) Naming() string { return r.name }
func (r *orderedRunner) Order() int     { return r.order }
func (r *orderedRunner) Run() error {
	if r.needs != "" {
		ok := false
		for _, s := range *r.state {
			if s == r.needs {
				ok = true
			}
		}
		if !ok {
			return fmt.Errorf("%s started before %s", r.name, r.needs)
		}
	}
	*r.state = append(*r.state, r.name)
	return nil
}

type prioRunner struct{ orderedRunner }

func (*prioRunner) Priority() {}

func TestRunnerOrderOutcome(t *testing.T) {
	kit.Rec.Rule(rule)
	rapid.Check(t, func(t *rapid.T) {
		lo := rapid.SampledFrom([]int{math.MinInt, math.MinInt + 1, -1 << 62, -5}).Draw(t, "lo")
		hi := rapid.SampledFrom([]int{0, 1, 7, math.MaxInt, 1 << 62}).Draw(t, "hi")
		prio := rapid.Bool().Draw(t, "prio")
		extra := rapid.IntRange(0, 3).Draw(t, "extra")
		started, failed := 0, 0
		for i := 0; i < reps(); i++ {
			var state []string
			mk := func(name string, order int, needs string) any {
				r := orderedRunner{name: name, order: order, state: &state, needs: needs}
				if prio {
					return &prioRunner{r}
				}
				return &r
			}
			comps := []any{mk("migration", lo, ""), mk("server", hi, "migration")}
			for k := 0; k < extra; k++ {
				comps = append(comps, mk(fmt.Sprintf("extra-%d", k), rapid.SampledFrom([]int{-3, 0, 2, 9}).Draw(t, "eo"), ""))
			}
			comps = rapid.Permutation(comps).Draw(t, "order")
			out := kit.RunApp(app.SetComponents(comps...))
			if out.Panic != nil {
				t.Fatalf("C10: panic %v", out.Panic)
			}
			if out.Err == nil {
				started++
			} else {
				failed++
			}
		}
		if started != 0 && failed != 0 {
			t.Fatalf("C10: runner 'migration' (Order %d) must run before 'server' (Order %d); with the same components start-up succeeded %d times and failed %d times depending on the registration order", lo, hi, started, failed)
		}
		if failed != 0 {
			t.Fatalf("C10: runner 'migration' (Order %d) was not run before 'server' (Order %d) in any order", lo, hi)
		}
		kit.Rec.Case(fmt.Sprintf("runner-order lo=%d hi=%d prio=%v extra=%d", lo, hi, prio, extra), true, "runner-order-outcome")
	})
}

// ---- known finding: a plain after-initialization decorator on a cycle ---------------------------------------------

// KHolder collects the two members of a cycle through a slice; KP and KQ refer to each other; kDecoPP decorates KQ
// after initialization (a plain ComponentPostProcessor: it has no early-reference callback). The candidates of
// KHolder.All are created in the order the definition registry enumerates them: KP first -> the start succeeds,
// KQ first -> KQ's raw early reference reaches KP and the start is refused ("has been wrapped").
type KI interface{ isKI() }
type KP struct {
	Q KI `wire:"k-q"`
}
type KQ struct {
	P KI `wire:"k-p"`
}

func (*KP) Naming() string { return "k-p" }
func (*KQ) Naming() string { return "k-q" }

type KQDeco struct{ Target *KQ }

func (*KP) isKI()     {}
func (*KQ) isKI()     {}
func (*KQDeco) isKI() {}

type KHolder struct {
	All []KI `wire:""`
}

func (*KHolder) Naming() string { return "a-k-holder" }

type kDecoPP struct{}

func (*kDecoPP) PostProcessBeforeInitialization(c any, n string) (any, error) { return c, nil }
func (*kDecoPP) PostProcessAfterInitialization(c any, n string) (any, error) {
	if q, ok := c.(*KQ); ok {
		return &KQDeco{Target: q}, nil
	}
	return c, nil
}

// sortedDR enumerates the definitions by name, ascending or descending - two of the orders a registry may produce.
type sortedDR struct {
	container.DefinitionRegistry
	desc bool
}

func (d *sortedDR) GetMetas(opts ...container.Option) []*component_definition.Meta {
	ms := d.DefinitionRegistry.GetMetas(opts...)
	sort.SliceStable(ms, func(i, j int) bool {
		if d.desc {
			return ms[i].Name() > ms[j].Name()
		}
		return ms[i].Name() < ms[j].Name()
	})
	return ms
}

func TestKnownDecoratorOutcomeDependsOnEnumerationOrder(t *testing.T) {
	const class = "after-init-decorator-outcome-depends-on-enumeration-order"
	var outcomes []string
	for _, desc := range []bool{false, true} {
		dr := &sortedDR{DefinitionRegistry: support.DefaultDefinitionRegistry(), desc: desc}
		f := factory.NewWithRegistries(dr, support.DefaultSingletonComponentRegistry())
		out := kit.RunApp(app.SetFactory(f), app.SetComponents(&KHolder{}, &KP{}, &KQ{}, &kDecoPP{}))
		if out.Panic != nil {
			t.Fatalf("C10: start-up panicked: %v", out.Panic)
		}
		outcomes = append(outcomes, fmt.Sprintf("definitions enumerated %s: started=%v", map[bool]string{false: "ascending", true: "descending"}[desc], out.Err == nil))
	}
	fails := strings.HasSuffix(outcomes[0], "true") != strings.HasSuffix(outcomes[1], "true")
	kit.Rec.KnownWitness(class, fails, strings.Join(outcomes, "; "))
	t.Logf("witness fails=%v: %v", fails, outcomes)
}
