package c06

import (
	"fmt"
	"github.com/go-kid/ioc"
	"github.com/go-kid/ioc/app"
	"github.com/go-kid/ioc/container/support"
	"os"
	"reflect"
	"sort"
	"strings"
	"testing"

	"pgregory.net/rapid"
	"verif/harness/graph"
	"verif/harness/kit"
	"verif/harness/model"
	"verif/harness/pop"
	"verif/harness/zoo"
)

func TestMain(m *testing.M) { kit.Main(m) }

const rule = "provider populations from the provider zoo (11 concrete types, 6 overlapping interfaces, named/unnamed, lazy/eager, Comp() results drawn) x 1-3 run-time built consumers with 1-4 unnamed points of kinds *T, I, []*T, []I, any, []any under wire:\"\" / func:\"Comp\" / func:\"Comp,returns=..\"; oracle = plain-reflect reference candidate set over the registered population; non-trivial = some point has >=2 admissible components and the population holds a same-shaped non-candidate; distinct by scenario shape; since rounds 7/8 also providers of named non-struct types, lazy nodes populated after ANOTHER container of the process has started, and (own process) providers announced through ioc.Register; names that differ in letter case only"

var kinds = []int{0, 1, 2, 3, 4, 5, 6, 7, 8, 13, 14, 15, 17, 18, 17, 19, 19, 20, 21, 27, 28} // 17/18 = alt-package PA / PB; 19 = lazy post-processor that is also a provider; 20/21 = zero-size with qualifier / Primary
var names = []string{"n1", "n2", "n3", "n4", "n5", "n6", "N1", "N2"}                         // names that differ in letter case only are different names
var compVals = []string{"a", "b", "c"}

func genField(t *rapid.T, provs []pop.ProvSpec) pop.FieldSpec {
	typ := pop.DrawFieldType(t, provs, rapid.Bool().Draw(t, "slice"))
	opt := ""
	if rapid.IntRange(0, 2).Draw(t, "optional") > 0 {
		opt = ",required=false"
	}
	switch rapid.IntRange(0, 5).Draw(t, "tagkind") {
	case 0:
		return pop.FieldSpec{Type: typ, Tag: fmt.Sprintf(`func:"Comp%s"`, opt)}
	case 1:
		n := rapid.IntRange(1, 2).Draw(t, "nret")
		rs := rapid.SliceOfNDistinct(rapid.SampledFrom([]string{"a", "b", "c", "zz", "*"}), n, n, rapid.ID[string]).Draw(t, "rets")
		return pop.FieldSpec{Type: typ, Tag: fmt.Sprintf(`func:"Comp,returns=%s%s"`, strings.Join(rs, " "), opt)}
	default:
		// now and then the (empty) name is not written literally: a placeholder that resolves to nothing
		val := ""
		switch rapid.IntRange(0, 7).Draw(t, "emptyname") {
		case 0:
			val = "${c06.absent.name:}"
		case 1:
			val = "${c06.absent.name}"
		}
		return pop.FieldSpec{Type: typ, Tag: fmt.Sprintf(`wire:"%s%s"`, val, opt)}
	}
}

// EmbConsumer declares its points as EMBEDDED tagged fields (the decorator shape: the embedded interface / pointer is
// the injection point itself, it is not "seen through").
type IPlain interface{ isPlain() }
type PlainT struct{ N int }

func (*PlainT) isPlain() {}

type EmbConsumer struct {
	IPlain  `wire:",required=false"`
	*PlainT `wire:",required=false"`
	Own     []zoo.IAB `wire:",required=false"`
}

func TestTypeDirected(t *testing.T) {
	kit.Rec.Rule(rule)
	rapid.Check(t, func(t *rapid.T) {
		s := &pop.Scenario{}
		s.Provs = pop.GenProviders(t, pop.ProvOpts{Kinds: kinds, Min: 1, Max: 8, Quals: []string{"g1"}, Comps: compVals, Names: names})
		nc := rapid.IntRange(1, 3).Draw(t, "ncons")
		for k := 0; k < nc; k++ {
			nf := rapid.IntRange(1, 4).Draw(t, "nfields")
			var c pop.ConsSpec
			for i := 0; i < nf; i++ {
				c.Fields = append(c.Fields, genField(t, s.Provs))
			}
			// a configuration point next to the component points (other property group of the same holder)
			for nd := rapid.SampledFrom([]int{0, 1, 1, 2}).Draw(t, "ndecoys"); nd > 0; nd-- {
				pos := rapid.IntRange(0, len(c.Fields)).Draw(t, "cfgpos")
				f := pop.DrawDecoyField(t)
				c.Fields = append(c.Fields[:pos], append([]pop.FieldSpec{f}, c.Fields[pos:]...)...)
			}
			s.Cons = append(s.Cons, c)
		}
		s.Finish(t)
		in := s.Instantiate()
		// an observing post-processor that sorts in front of the built-in wiring processors (it answers "nothing to
		// populate here" like the library's embeddable default does)
		switch rapid.IntRange(0, 3).Draw(t, "observer") {
		case 0:
			in.Extra = append(in.Extra, &graph.PriorityObsPP{ObsPP: graph.ObsPP{Tag: "c06p", Log: in.Log, NoBudget: true}})
		case 1:
			in.Extra = append(in.Extra, &graph.OrderedObsPP{ObsPP: graph.ObsPP{Tag: "c06o", Log: in.Log, OrderV: 1, NoBudget: true}})
		}
		if rapid.IntRange(0, 2).Draw(t, "embeddedpoints") == 0 {
			in.Extra = append(in.Extra, &EmbConsumer{}, &PlainT{N: 1})
		}
		// now and then slice points already hold elements when the start begins: they must be replaced, not extended
		prefilled := rapid.IntRange(0, 3).Draw(t, "prefillslices") == 0
		if prefilled {
			for k, c := range s.Cons {
				obj := reflect.ValueOf(in.Comps[s.ConsumerIndex(k)]).Elem()
				for i, f := range c.Fields {
					ft := pop.Types[f.Type]
					if ft.Kind() == reflect.Slice && (ft.Elem().Kind() == reflect.Interface || ft.Elem().Kind() == reflect.Pointer) {
						for _, pk := range zoo.ProviderKinds[:9] {
							cand := reflect.ValueOf(pk.New(&zoo.Beh{ID: -5}))
							if cand.Type().AssignableTo(ft.Elem()) {
								obj.Field(i + 1).Set(reflect.Append(reflect.MakeSlice(ft, 0, 2), cand, cand))
								break
							}
						}
					}
				}
			}
		}
		in.Run()
		desc := s.Shape()
		if in.Out.Panic != nil {
			t.Fatalf("C06: start-up panicked: %v\nscenario: %s", in.Out.Panic, desc)
		}
		g := in.G
		verdict := g.WiringVerdict()
		switch verdict {
		case model.MustSucceed:
			if in.Out.Err != nil {
				t.Fatalf("C06: every required point has a compatible component, yet start-up failed: %v\nscenario: %s", in.Out, desc)
			}
		case model.MustFail:
			if in.Out.Err == nil {
				un, _ := g.Unsatisfied()
				t.Fatalf("C06: required point(s) %v have no compatible component, yet start-up succeeded\nscenario: %s", un, desc)
			}
		}
		labels := []string{"verdict/" + verdict.String()}
		nt := false
		if prefilled && in.Out.Err == nil {
			// a point without any admissible component is left untouched: its pre-filled content is not the container's doing
			for k := range s.Cons {
				for _, p := range g.Points[in.Comp(s.ConsumerIndex(k))] {
					if len(p.Cands) == 0 && p.Multi {
						p.FieldValue().Set(reflect.Zero(p.Field.Type))
					}
				}
			}
		}
		if in.Out.Err == nil {
			// sound + complete; ranking among several candidates is C08's subject
			if err := graph.CheckWiringOpt(g, graph.WiringOpts{Complete: true}); err != nil {
				t.Fatalf("C06: %v\nscenario: %s\nreg %v ordmode %d", err, desc, s.RegPerm, s.OrdMode)
			}
			for k, c := range s.Cons {
				if err := pop.CheckDecoys(in.Comps[s.ConsumerIndex(k)], c); err != nil {
					t.Fatalf("C06: %v\nscenario: %s", err, desc)
				}
			}
			// now and then the same objects - fields still populated - are started in a second, fresh container
			if rapid.IntRange(0, 4).Draw(t, "secondcontainer") == 0 {
				in.Run()
				if in.Out.Panic != nil || in.Out.Err != nil {
					t.Fatalf("C06: the same components started in a second container: %v (the first start succeeded)\nscenario: %s", in.Out, desc)
				}
				if err := graph.CheckWiringOpt(in.G, graph.WiringOpts{Complete: true}); err != nil {
					t.Fatalf("C06: second container over the same components: %v\nscenario: %s", err, desc)
				}
				labels = append(labels, "second-container-same-objects")
			}
			for k := range s.Cons {
				c := in.Comp(s.ConsumerIndex(k))
				for _, p := range g.Points[c] {
					if len(p.Cands) >= 2 {
						// a same-shaped non-candidate: registered scenario provider that is not admissible
						for _, o := range g.Pop {
							if o.ID >= 0 && o.ID < len(s.Provs) && !contains(p.Cands, o) {
								nt = true
							}
						}
						if p.Multi {
							labels = append(labels, "slice>=2")
						} else {
							labels = append(labels, "single>=2")
						}
					}
					if p.Tag == "func" && len(p.Cands) > 0 {
						labels = append(labels, "func-matched")
					}
					if p.SelfOnly || (len(p.All) > len(p.Cands)) {
						labels = append(labels, "self-excluded")
					}
				}
			}
		}
		kit.Rec.Case(desc, nt, dedup(labels)...)
	})
}

func contains(xs []*model.Comp, c *model.Comp) bool {
	for _, x := range xs {
		if x == c {
			return true
		}
	}
	return false
}

func dedup(xs []string) []string {
	m := map[string]bool{}
	var out []string
	for _, x := range xs {
		if !m[x] {
			m[x] = true
			out = append(out, x)
		}
	}
	return out
}

// TestLazyRetry: a lazy component whose first creation fails (Init fails once) is created again by a
// later lookup; its slice points must then hold every admissible component exactly once (no leftovers
// of the failed attempt).
func TestLazyRetry(t *testing.T) {
	kit.Rec.Rule(rule)
	rapid.Check(t, func(t *rapid.T) {
		s := graph.Gen(t, graph.GenOpts{MinNodes: 2, MaxNodes: 5, Variants: "NLL", Aliases: true})
		lazy := -1
		for i, n := range s.Nodes {
			if n.Variant == 'L' {
				lazy = i
			}
		}
		if lazy < 0 {
			t.Skip("no lazy node")
		}
		s.Nodes[lazy].FailInit = zoo.FailOnce
		in := s.Instantiate()
		in.Run()
		desc := "lazy-retry " + s.Shape()
		if in.Out.Panic != nil {
			t.Fatalf("C06: panic %v\n%s", in.Out.Panic, desc)
		}
		if in.Out.Err != nil {
			// the lazy node was needed by an eager one: start-up fails, nothing to retry
			kit.Rec.Case(desc, false, "needed-at-startup")
			return
		}
		name := in.Comp(lazy).Name
		_, err1 := in.Out.App.GetComponentByName(name)
		_, err2 := in.Out.App.GetComponentByName(name)
		if err1 == nil || err2 != nil {
			kit.Rec.Case(desc, false, "no-retry-shape")
			return
		}
		c := in.Comp(lazy)
		for _, p := range in.G.Points[c] {
			if !p.Multi {
				continue
			}
			seen := map[any]int{}
			fv := p.FieldValue()
			for i := 0; i < fv.Len(); i++ {
				seen[fv.Index(i).Interface()]++
			}
			for o, n := range seen {
				if n > 1 {
					t.Fatalf("C06: after the retried creation %s holds %T %d times (every component exactly once expected)\n%s", p, o, n, desc)
				}
			}
			if len(seen) != len(p.Cands) {
				t.Fatalf("C06: after the retried creation %s holds %d distinct components, %d are admissible\n%s", p, len(seen), len(p.Cands), desc)
			}
		}
		kit.Rec.Case(desc, true, "retried-lazy-creation")
	})
}

// TestFailingCandidates: some candidates fail to initialise (always, or only at the first attempt). Either
// start-up fails, or - if it succeeds - every point of every created component is complete: no
// candidate is silently left out because its creation failed when it was pulled in.
func TestFailingCandidates(t *testing.T) {
	kit.Rec.Rule(rule)
	rapid.Check(t, func(t *rapid.T) {
		s := graph.Gen(t, graph.GenOpts{MinNodes: 2, MaxNodes: 5, Variants: "NNLLEXY", Aliases: true})
		faulty := 0
		for i := range s.Nodes {
			if rapid.IntRange(0, 2).Draw(t, "faulty") == 0 {
				s.Nodes[i].FailInit = rapid.SampledFrom([]int{zoo.FailAlways, zoo.FailOnce}).Draw(t, "mode")
				faulty++
			}
		}
		in := s.Instantiate()
		in.Run()
		desc := "failing-candidates " + s.Shape()
		if in.Out.Panic != nil {
			t.Fatalf("C06: panic %v\n%s", in.Out.Panic, desc)
		}
		if in.Out.Err != nil {
			kit.Rec.Case(desc, false, "start-failed")
			return
		}
		if err := graph.CheckWiringOpt(in.G, graph.WiringOpts{Complete: true}); err != nil {
			t.Fatalf("C06: start-up succeeded although %d component(s) fail to initialise, and the wiring is incomplete: %v\n%s", faulty, err, desc)
		}
		kit.Rec.Case(desc, faulty > 0, "started-with-faulty-candidates-around")
	})
}

// TestLazyAfterOtherContainer: lazy components are populated after ANOTHER container of this process has started
// (same types, partly the same names): they are wired from their own container, completely.
func TestLazyAfterOtherContainer(t *testing.T) {
	kit.Rec.Rule(rule)
	rapid.Check(t, func(t *rapid.T) {
		desc, labels, nt := graph.LazyAfterOther(t, "C06", false)
		kit.Rec.Case(desc, nt, labels...)
	})
}

// ---- providers announced process-wide (ioc.Register), consumers passed to ioc.Run - own process -----------------

type GIf interface{ gname() string }
type GProvA struct{}
type GProvB struct{ N int }
type GProvC struct{ N int }

func (*GProvA) gname() string { return "a" }
func (*GProvB) gname() string { return "b" }
func (*GProvC) gname() string { return "c" }
func (*GProvC) Comp() string  { return "x" }

type GCons struct {
	All   []GIf   `wire:""`
	B     *GProvB `wire:",required=false"`
	Comps []GIf   `func:"Comp,returns=x"`
}

func TestStaticRegisteredProviders(t *testing.T) {
	if os.Getenv("VERIF_GLOBAL_SETTINGS") != "1" {
		t.Skip("changes process-wide state: runs in a process of its own")
	}
	kit.Rec.Rule(rule)
	pa, pb := &GProvA{}, &GProvB{N: 1}
	ioc.Register(pa, pb)
	for round, ownRegistry := range []bool{false, true, true, false} {
		pc, cons := &GProvC{N: 2}, &GCons{}
		ops := []app.SettingOption{app.SetComponents(pc, cons)}
		if ownRegistry {
			ops = append([]app.SettingOption{app.SetRegistry(support.NewRegistry())}, ops...)
		}
		var err error
		if p := kit.Protect(func() { _, err = ioc.Run(ops...) }); p != nil {
			t.Fatalf("C06: ioc.Run panicked: %v", p)
		}
		desc := fmt.Sprintf("providers a, b announced through ioc.Register, provider c and the consumer passed to ioc.Run (run %d, registry of its own: %v)", round, ownRegistry)
		if err != nil {
			t.Fatalf("C06: %s: start-up failed: %v", desc, err)
		}
		var names []string
		for _, x := range cons.All {
			names = append(names, x.gname())
		}
		sort.Strings(names)
		if strings.Join(names, ",") != "a,b,c" || cons.B != pb || len(cons.Comps) != 1 || cons.Comps[0] != GIf(pc) {
			kit.DumpReplay("c06-registered-providers", map[string]any{"scenario": desc, "all": names, "b": fmt.Sprintf("%p", cons.B), "comps": len(cons.Comps)})
			t.Fatalf("C06: %s: []GIf holds %v (want a, b, c), *GProvB point holds %p (want %p), func point holds %d (want 1)", desc, names, cons.B, pb, len(cons.Comps))
		}
		kit.Rec.Case(desc, ownRegistry, "registered-providers")
	}
}
