package c19

import (
	"fmt"
	"reflect"
	"strconv"
	"strings"
	"sync"
	"testing"
	"unicode"
	"unicode/utf8"

	"github.com/go-kid/ioc/app"
	"github.com/go-kid/ioc/component_definition"
	"github.com/go-kid/ioc/configure/loader"
	"github.com/go-kid/ioc/container"
	"github.com/go-kid/ioc/container/processors"
	"github.com/go-kid/ioc/container/support"
	"gopkg.in/yaml.v3"
	"pgregory.net/rapid"
	"verif/harness/kit"
	"verif/harness/zoo"
)

func TestMain(m *testing.M) { kit.Main(m) }

const rule = "faithful part: tags rendered from a generated (value, [(name, items)]) structure with balanced (possibly nested, mixed {[( ) bracket groups containing commas, spaces and '=' inside value and items, repeated names and first-letter case variants, flag arguments and empty item lists - parsed by NewProperty and compared with the structure; end-to-end on run-time built structs (required/optional behaviour, prop shorthand split); totality part: arbitrary strings over a hostile alphabet and arbitrary bytes (rapid + native fuzzing) must parse without panic, and a point may only be optional if the text contains an explicit required=false; non-trivial = structure has >=2 arguments or a bracket group containing a comma/space; distinct by rendered tag; since round 8 also pointer-typed points in the required / optional end-to-end check"

type holder struct{ F any }

var theField = func() *component_definition.Field {
	m := component_definition.NewMeta(&holder{})
	return m.Fields[0]
}()

func parse(tag string) (p *component_definition.Property, pan any) {
	pan = kit.Protect(func() {
		p = component_definition.NewProperty(theField, component_definition.PropertyTypeComponent, "wire", tag)
	})
	return
}

// ---- structured generator ------------------------------------------------------

var plainChars = []rune("abcXYZ019._-:/$#'\"*+<>!?@%&|~éλ世")

func genPlain(t *rapid.T, min, max int, label string) string {
	rs := rapid.SliceOfN(rapid.SampledFrom(plainChars), min, max).Draw(t, label)
	return string(rs)
}

var opens = []string{"{", "[", "("}
var closes = []string{"}", "]", ")"}

// genGroup: a balanced bracket group; inside, commas, spaces and '=' are allowed.
func genGroup(t *rapid.T, depth int) string {
	k := rapid.IntRange(0, 2).Draw(t, "bracket")
	var sb strings.Builder
	sb.WriteString(opens[k])
	n := rapid.IntRange(0, 4).Draw(t, "ginner")
	for i := 0; i < n; i++ {
		switch rapid.IntRange(0, 5).Draw(t, "gkind") {
		case 0:
			sb.WriteString(",")
		case 1:
			sb.WriteString(" ")
		case 2:
			sb.WriteString("=")
		case 3:
			if depth < 2 {
				sb.WriteString(genGroup(t, depth+1))
			}
		default:
			sb.WriteString(genPlain(t, 1, 3, "gplain"))
		}
	}
	sb.WriteString(closes[k])
	return sb.String()
}

// genChunked: text without top-level comma (and without top-level space if noSpace).
func genChunked(t *rapid.T, minChunks, maxChunks int, allowEq bool) (string, bool) {
	n := rapid.IntRange(minChunks, maxChunks).Draw(t, "chunks")
	var sb strings.Builder
	hasGroup := false
	for i := 0; i < n; i++ {
		if rapid.IntRange(0, 2).Draw(t, "isgroup") == 0 {
			g := genGroup(t, 0)
			if strings.ContainsAny(g, ", ") {
				hasGroup = true
			}
			sb.WriteString(g)
		} else {
			sb.WriteString(genPlain(t, 1, 4, "plain"))
			if allowEq && rapid.IntRange(0, 5).Draw(t, "eq") == 0 {
				sb.WriteString("=")
			}
		}
	}
	return sb.String(), hasGroup
}

type argSpec struct {
	Name  string
	Flag  bool // no '=' at all
	Items []string
}

var nameGen = rapid.OneOf(
	rapid.SampledFrom([]string{"required", "Required", "qualifier", "Qualifier", "validate", "returns", "mapper", "x", "X"}),
	rapid.StringMatching(`[a-zA-Z][a-zA-Z0-9_]{0,5}`),
)

func canon(n string) string {
	if n == "" {
		return n
	}
	return strings.ToUpper(n[:1]) + n[1:]
}

func swapFirst(n string) string {
	if n == "" {
		return n
	}
	r := n[:1]
	if strings.ToUpper(r) == r {
		return strings.ToLower(r) + n[1:]
	}
	return strings.ToUpper(r) + n[1:]
}

type tagStruct struct {
	Value string
	Args  []argSpec
	Rich  bool
}

func genTag(t *rapid.T) tagStruct {
	var ts tagStruct
	if rapid.IntRange(0, 3).Draw(t, "hasvalue") > 0 {
		ts.Value, ts.Rich = genChunked(t, 1, 3, true)
	}
	na := rapid.IntRange(0, 4).Draw(t, "nargs")
	for i := 0; i < na; i++ {
		a := argSpec{Name: nameGen.Draw(t, "argname")}
		switch rapid.IntRange(0, 5).Draw(t, "argkind") {
		case 0:
			a.Flag = true
			a.Items = []string{""}
		case 1:
			a.Items = []string{""} // "name="
		default:
			if canon(a.Name) == "Required" && rapid.Bool().Draw(t, "reqval") {
				a.Items = []string{rapid.SampledFrom([]string{"false", "true", "False", "FALSE", "0", "no"}).Draw(t, "req")}
				break
			}
			ni := rapid.IntRange(1, 3).Draw(t, "nitems")
			for j := 0; j < ni; j++ {
				it, rich := genChunked(t, 1, 2, true)
				ts.Rich = ts.Rich || rich
				a.Items = append(a.Items, it)
			}
		}
		ts.Args = append(ts.Args, a)
	}
	return ts
}

func (ts tagStruct) render() string {
	var sb strings.Builder
	sb.WriteString(ts.Value)
	for _, a := range ts.Args {
		sb.WriteString("," + a.Name)
		if !a.Flag {
			sb.WriteString("=" + strings.Join(a.Items, " "))
		}
	}
	return sb.String()
}

// expected: last occurrence per canonical name
func (ts tagStruct) expected() map[string][]string {
	m := map[string][]string{}
	for _, a := range ts.Args {
		m[canon(a.Name)] = a.Items
	}
	return m
}

func (ts tagStruct) optional() bool {
	for _, it := range ts.expected()["Required"] {
		if it == "false" {
			return true
		}
	}
	return false
}

func checkFaithful(ts tagStruct) error {
	tag := ts.render()
	p, pan := parse(tag)
	if pan != nil {
		return fmt.Errorf("parsing %q panicked: %v", tag, pan)
	}
	if p.TagVal != ts.Value || p.TagStr != ts.Value {
		return fmt.Errorf("tag %q: value part is %q, want %q", tag, p.TagVal, ts.Value)
	}
	exp := ts.expected()
	for name, items := range exp {
		for _, n := range []string{name, swapFirst(name)} {
			got, ok := p.Args().Find(component_definition.ArgType(n))
			if !ok {
				return fmt.Errorf("tag %q: argument %q not found (looked up as %q); args: %v", tag, name, n, p.Args())
			}
			if !reflect.DeepEqual(got, items) {
				return fmt.Errorf("tag %q: argument %q has items %q, want %q", tag, n, got, items)
			}
			for _, it := range items {
				if !p.Args().Has(component_definition.ArgType(n), it) {
					return fmt.Errorf("tag %q: Has(%q,%q) is false", tag, n, it)
				}
			}
		}
	}
	cnt := 0
	p.Args().ForEach(func(a component_definition.ArgType, _ []string) { cnt++ })
	if cnt != len(exp) {
		return fmt.Errorf("tag %q: parsed %d arguments %v, want %d %v", tag, cnt, p.Args(), len(exp), exp)
	}
	if p.IsRequired() == ts.optional() {
		return fmt.Errorf("tag %q: IsRequired()=%v but explicit required=false present: %v", tag, p.IsRequired(), ts.optional())
	}
	return nil
}

func TestFaithful(t *testing.T) {
	kit.Rec.Rule(rule)
	rapid.Check(t, propFaithful)
}

// FuzzFaithful drives the structured round trip with coverage-guided native fuzzing (thorough tier).
func FuzzFaithful(f *testing.F) { f.Fuzz(rapid.MakeFuzz(propFaithful)) }

func propFaithful(t *rapid.T) {
	{
		ts := genTag(t)
		if err := checkFaithful(ts); err != nil {
			t.Fatalf("C19: %v", err)
		}
		var labels []string
		// the arguments belong to the point they were parsed for: changing one point through the public
		// SetArg / AddArg (as post-processors do) must not show on another point that carries the same tag text
		if rapid.IntRange(0, 2).Draw(t, "mutatesibling") == 0 {
			if p1, pan := parse(ts.render()); pan == nil {
				p1.SetArg(component_definition.ArgRequired, "false")
				p1.AddArg(component_definition.ArgQualifier, "leaked")
				p1.SetArg("C19extra", "1")
				if err := checkFaithful(ts); err != nil {
					t.Fatalf("C19: after another point with the same tag text was modified through SetArg / AddArg: %v", err)
				}
				labels = append(labels, "sibling-point-modified")
			}
		}
		if ts.Rich {
			labels = append(labels, "bracket-group-with-separator")
		}
		if ts.optional() {
			labels = append(labels, "optional")
		}
		seen := map[string]bool{}
		for _, a := range ts.Args {
			if seen[canon(a.Name)] {
				labels = append(labels, "repeated-name")
			}
			seen[canon(a.Name)] = true
		}
		kit.Rec.Case(ts.render(), len(ts.Args) >= 2 || ts.Rich, labels...)
	}
}

// ---- end to end ----------------------------------------------------------------

func quoteTag(key, val string) reflect.StructTag {
	return reflect.StructTag(key + ":" + strconv.Quote(val))
}

func TestEndToEndRequired(t *testing.T) {
	kit.Rec.Rule(rule)
	rapid.Check(t, func(t *rapid.T) {
		ts := genTag(t)
		// name no component: the value part is the requested component name
		ts.Value = "no-such-" + rapid.StringMatching(`[a-z]{1,4}`).Draw(t, "absent")
		if rapid.Bool().Draw(t, "decoy") {
			// a bracketed group that merely mentions required=false must not make the point optional
			ts.Args = append(ts.Args, argSpec{Name: "note", Items: []string{"[legacy,required=false,see docs]"}})
			ts.Rich = true
		}
		// qualifier arguments would not matter for an absent name; keep them
		tag := ts.render()
		dc := kit.DrawDecoys(t) // neighbouring fields of other tag kinds must not matter
		typ := reflect.StructOf(dc.Around(reflect.StructField{Name: "F", Type: reflect.TypeOf((*zoo.IAll)(nil)).Elem(), Tag: quoteTag("wire", tag)}))
		obj := reflect.New(typ)
		out := kit.RunApp(app.SetComponents(obj.Interface(), zoo.ProviderKinds[0].New(&zoo.Beh{})))
		if out.OK() {
			if err := dc.Check(obj); err != nil {
				t.Fatalf("C19: %v%s", err, dc)
			}
		}
		if out.Panic != nil {
			t.Fatalf("C19: start-up panicked for tag %q: %v", tag, out.Panic)
		}
		if ts.optional() {
			if out.Err != nil {
				t.Fatalf("C19: tag %q carries an explicit required=false, start-up must not fail: %v", tag, out)
			}
			if !obj.Elem().FieldByName("F").IsNil() {
				t.Fatalf("C19: tag %q: optional unsatisfied point was populated", tag)
			}
		} else if out.Err == nil {
			t.Fatalf("C19: tag %q has no explicit required=false and names no component, yet start-up succeeded (point treated as optional)", tag)
		}
		lab := "e2e-required"
		if ts.optional() {
			lab = "e2e-optional"
		}
		kit.Rec.Case("e2e "+tag, len(ts.Args) >= 2 || ts.Rich, lab)
	})
}

// prop shorthand: key[:default] before the first top-level comma, arguments after it
func TestEndToEndProp(t *testing.T) {
	kit.Rec.Rule(rule)
	rapid.Check(t, func(t *rapid.T) {
		n := rapid.IntRange(1, 4).Draw(t, "n")
		var nums []int
		var parts []string
		for i := 0; i < n; i++ {
			v := rapid.IntRange(0, 9999).Draw(t, "v")
			nums = append(nums, v)
			parts = append(parts, strconv.Itoa(v))
		}
		present := rapid.Bool().Draw(t, "present")
		ts := genTag(t)
		var args []argSpec
		for _, a := range ts.Args {
			if c := canon(a.Name); c != "Validate" && c != "Mapper" && c != "TimeLayout" {
				args = append(args, a)
			}
		}
		ts.Args = args
		ts.Value = "c19.list:[" + strings.Join(parts, ",") + "]"
		tag := ts.render()
		dc := kit.DrawDecoys(t) // neighbouring fields of other tag kinds must not matter
		typ := reflect.StructOf(dc.Around(reflect.StructField{Name: "F", Type: reflect.TypeOf([]int(nil)), Tag: quoteTag("prop", tag)}))
		obj := reflect.New(typ)
		cfg := "c19:\n  other: 1\n"
		want := nums
		if present {
			cfg = "c19:\n  list: [7, 8]\n"
			want = []int{7, 8}
		}
		out := kit.RunApp(app.SetComponents(obj.Interface()), app.SetConfigLoader(loader.NewRawLoader([]byte(cfg))))
		if out.OK() {
			if err := dc.Check(obj); err != nil {
				t.Fatalf("C19: %v%s", err, dc)
			}
		}
		if !out.OK() {
			t.Fatalf("C19: prop:%q failed: %v", tag, out)
		}
		got := obj.Elem().FieldByName("F").Interface().([]int)
		if !reflect.DeepEqual(got, want) {
			t.Fatalf("C19: prop:%q bound %v, want %v (bracketed default must not be split, arguments must not leak into the key)", tag, got, want)
		}
		kit.Rec.Case("prop "+tag, true, "e2e-prop")
	})
}

// ---- totality ------------------------------------------------------------------

// lengthChanging: letters whose upper- or lower-case form has another UTF-8 length (first-letter case handling must
// not assume the length stays the same)
var lengthChanging = func() []string {
	var out []string
	for r := rune(0x80); r < 0x3000; r++ {
		if u := unicode.ToUpper(r); u != r && utf8.RuneLen(u) != utf8.RuneLen(r) {
			out = append(out, string(r))
		} else if l := unicode.ToLower(r); l != r && utf8.RuneLen(l) != utf8.RuneLen(r) {
			out = append(out, string(r))
		}
	}
	return out
}()

var hostile = []string{",", "=", " ", "[", "]", "(", ")", "{", "}", "a", "R", "required", "false", "=false", ",=", "é", "世", "\x00", "\xff", "\"", "\\", "${", "#{", ":", "qualifier"}

func scanProp(tag string) (pan any) {
	typ := reflect.StructOf([]reflect.StructField{
		{Name: "A", Type: reflect.TypeOf(""), Tag: quoteTag("prop", tag)},
		{Name: "B", Type: reflect.TypeOf(""), Tag: quoteTag("value", tag)},
		{Name: "C", Type: reflect.TypeOf((*any)(nil)).Elem(), Tag: quoteTag("wire", tag)},
	})
	obj := reflect.New(typ).Interface()
	return kit.Protect(func() {
		reg := support.DefaultDefinitionRegistry()
		for _, p := range []any{processors.NewValueAwarePostProcessors(), processors.NewDependencyAwarePostProcessors(), processors.NewPropertiesAwarePostProcessors()} {
			if err := p.(container.DefinitionRegistryPostProcessor).PostProcessDefinitionRegistry(reg, obj, "probe"); err != nil {
				_ = err
			}
		}
	})
}

// totalityOracle is shared by the rapid test and the fuzz target.
func totalityOracle(s string) error {
	p, pan := parse(s)
	if pan != nil {
		return fmt.Errorf("NewProperty panicked on %q: %v", s, pan)
	}
	if !p.IsRequired() && !(strings.Contains(strings.ToLower(s), "equired=") && strings.Contains(s, "false")) {
		return fmt.Errorf("tag %q is treated as optional without an explicit required=false", s)
	}
	if want, ok := topLevelValue(s); ok && p.TagVal != want {
		return fmt.Errorf("tag %q (brackets balanced): value part is %q, want the text before the first top-level comma %q", s, p.TagVal, want)
	}
	if utf8.ValidString(s) {
		if pan := scanProp(s); pan != nil {
			return fmt.Errorf("scanning a struct whose prop/value/wire tags are %q panicked: %v", s, pan)
		}
	}
	return nil
}

// topLevelValue: for a string whose brackets are balanced (depth never negative, ends at 0)
// the text before the first comma at depth 0. ok=false for unbalanced strings ("top level" is undefined there).
func topLevelValue(s string) (string, bool) {
	depth, cut := 0, -1
	for i := 0; i < len(s); i++ {
		switch s[i] {
		case '{', '[', '(':
			depth++
		case '}', ']', ')':
			depth--
			if depth < 0 {
				return "", false
			}
		case ',':
			if depth == 0 && cut < 0 {
				cut = i
			}
		}
	}
	if depth != 0 {
		return "", false
	}
	if cut < 0 {
		return s, true
	}
	return s[:cut], true
}

func TestTotality(t *testing.T) {
	kit.Rec.Rule(rule)
	rapid.Check(t, func(t *rapid.T) {
		var s string
		switch rapid.IntRange(0, 2).Draw(t, "alphabet") {
		case 0:
			s = strings.Join(rapid.SliceOfN(rapid.SampledFrom(hostile), 0, 14).Draw(t, "tokens"), "")
		case 1:
			// argument names / values that start with a letter whose case mapping changes its encoded length
			s = strings.Join(rapid.SliceOfN(rapid.OneOf(rapid.SampledFrom(hostile), rapid.SampledFrom(lengthChanging)), 0, 10).Draw(t, "tokens2"), "")
		default:
			s = string(rapid.SliceOfN(rapid.Byte(), 0, 24).Draw(t, "bytes"))
		}
		if err := totalityOracle(s); err != nil {
			t.Fatalf("C19: %v", err)
		}
		kit.Rec.Case(strconv.Quote(s), strings.Count(s, ",") >= 2 || strings.ContainsAny(s, "[]{}()"), "totality")
	})
}

func FuzzTagParse(f *testing.F) {
	for _, s := range seeds {
		f.Add(s)
	}
	f.Fuzz(func(t *testing.T, s string) {
		if err := totalityOracle(s); err != nil {
			t.Fatalf("C19: %v", err)
		}
	})
}

var seeds = []string{
	"", "Comp", "Comp,returns=*", "Comp,returns=A B", ",embed", "test.${env2:local}.host", "test.host2:https://api.go-kid.org",
	"test.parameters2:map[a:b]", "test.port2:[1,2,3],required=true,validate=required min=3 max=20", "test.port2:[:8888,:9999]",
	"#{${:1}+(${:1}*${:2})}", "#{'a' in ${:[a,'a','b',c,1,3.14,true]}}", "#{1>2?'${:'a'}':'${:'b'}'}", "${t:}${t2:}${t3:},required=false",
	"123,validate=eq=123 number", "[\"hello\",\"world\",\"foo\",\"bar\"]", "map[s:abc b:true],validate", "{\"s\":\"abc\"},validate",
	",qualifier", ",qualifier=group1 group2", ",required=false", ",required=true", "test11,qualifier=group1",
	",=", ",=x", ",==", ",,", ",", "=,", "a,=b,c", "[,", "],", "(,),", ",a=[", ",a=]", ",é=1", ",世", ",\xff=1", ",required=false ,", ",Required=false", ",required=[false]",
	",note=[legacy,required=false,see docs]", ",required= false", ",required=false true", ",required", ",required=", "x,required=false,required=true",
}

// TestEndToEndPropEmptyKey: the prop shorthand with an EMPTY value part - the arguments still start at the first
// top-level comma: prop:",required=false" is optional.
func TestEndToEndPropEmptyKey(t *testing.T) {
	kit.Rec.Rule(rule)
	rapid.Check(t, func(t *rapid.T) {
		ts := genTag(t)
		var args []argSpec
		for _, a := range ts.Args {
			if c := canon(a.Name); c != "Validate" && c != "Mapper" && c != "TimeLayout" && c != "Required" {
				args = append(args, a)
			}
		}
		optional := rapid.Bool().Draw(t, "optional")
		if optional {
			pos := rapid.IntRange(0, len(args)).Draw(t, "pos")
			args = append(args[:pos], append([]argSpec{{Name: "required", Items: []string{"false"}}}, args[pos:]...)...)
		}
		ts.Args = args
		ts.Value = ""
		tag := ts.render()
		dc := kit.DrawDecoys(t) // neighbouring fields of other tag kinds must not matter
		// (whatever the field's type: a pointer-typed point is as required as any other)
		ftyp := rapid.SampledFrom([]reflect.Type{reflect.TypeOf(map[string]any(nil)), reflect.TypeOf(map[string]any(nil)), reflect.TypeOf((*int)(nil)), reflect.TypeOf((*string)(nil)), reflect.TypeOf(""), reflect.TypeOf(0), reflect.TypeOf([]int(nil))}).Draw(t, "fieldtype")
		typ := reflect.StructOf(dc.Around(reflect.StructField{Name: "F", Type: ftyp, Tag: quoteTag("prop", tag)}))
		obj := reflect.New(typ)
		out := kit.RunApp(app.SetComponents(obj.Interface())) // no configuration at all: the root is empty
		if out.OK() {
			if err := dc.Check(obj); err != nil {
				t.Fatalf("C19: %v%s", err, dc)
			}
		}
		if out.Panic != nil {
			t.Fatalf("C19: prop:%q panicked: %v", tag, out.Panic)
		}
		if optional && out.Err != nil {
			t.Fatalf("C19: prop:%q carries an explicit required=false after the (empty) value part, start-up must not fail: %v", tag, out)
		}
		if !optional && out.Err == nil {
			t.Fatalf("C19: prop:%q has no required=false and nothing is configured, yet start-up succeeded", tag)
		}
		kit.Rec.Case("prop-empty-key "+tag+" on "+ftyp.String(), true, "e2e-prop-empty-key")
	})
}

// ---- configured data is data, never tag text -------------------------------------

type argSpy struct {
	processors.DefaultInstantiationAwareComponentPostProcessor
	args     map[string][]string
	required bool
	// the twin point G carries the same tag text under a USER tag, scanned by a user scanner with default settings
	seenG, requiredG bool
	seen             bool
}

func (a *argSpy) PostProcessAfterInstantiation(c any, name string) (bool, error) { return true, nil }

func (a *argSpy) PostProcessProperties(props []*component_definition.Property, c any, name string) ([]*component_definition.Property, error) {
	for _, p := range props {
		if p.Field.StructField.Name == "G" && p.Tag == "c19tag" {
			a.seenG, a.requiredG = true, p.IsRequired()
		}
		if p.Field.StructField.Name == "F" {
			a.seen = true
			a.args = map[string][]string{}
			p.Args().ForEach(func(t component_definition.ArgType, items []string) {
				a.args[string(t)] = append([]string(nil), items...)
			})
			a.required = p.IsRequired()
		}
	}
	return nil, nil
}

// c19Scan: a user tag scanner with the default settings of the embeddable scanner.
type c19Scan struct {
	processors.DefaultTagScanDefinitionRegistryPostProcessor
}

var dataTexts = []string{"hello, world", "a.example.com,b.example.com", "host=db1,Port=5432,Sslmode=disable", ",required=false", "x,required=false", "x,Required=false", "k=v", "plain", "a b", "trailing,", "q,qualifier=z", "1,2"}

// TestEndToEndDataIsNotTagText: the arguments and the required status of a point are those written in its tag;
// the text a placeholder resolves to - whatever commas, equals signs or "required=false" it contains - is bound in full.
func TestEndToEndDataIsNotTagText(t *testing.T) {
	kit.Rec.Rule(rule)
	rapid.Check(t, func(t *rapid.T) {
		ts := genTag(t)
		var args []argSpec
		for _, a := range ts.Args {
			if c := canon(a.Name); c != "Validate" && c != "Mapper" && c != "TimeLayout" {
				args = append(args, a)
			}
		}
		ts.Args = args
		text := rapid.SampledFrom(dataTexts).Draw(t, "text")
		tagKey := rapid.SampledFrom([]string{"value", "prop", "value-default"}).Draw(t, "form")
		switch tagKey {
		case "value":
			ts.Value = "${c19.text}"
		case "prop":
			ts.Value = "c19.text"
		default:
			tagKey = "value"
			ts.Value = "pre-${c19.text}-${c19.absent:dflt}"
		}
		tag := ts.render()
		want := text
		if strings.HasPrefix(ts.Value, "pre-") {
			want = "pre-" + text + "-dflt"
		}
		dc := kit.DrawDecoys(t) // neighbouring fields of other tag kinds must not matter
		typ := reflect.StructOf(dc.Around(reflect.StructField{Name: "F", Type: reflect.TypeOf(""), Tag: quoteTag(tagKey, tag)},
			reflect.StructField{Name: "G", Type: reflect.TypeOf(""), Tag: quoteTag("c19tag", tag)}))
		obj := reflect.New(typ)
		doc, _ := yaml.Marshal(map[string]any{"c19": map[string]any{"text": text, "other": 1}})
		spy := &argSpy{}
		scan := &c19Scan{processors.DefaultTagScanDefinitionRegistryPostProcessor{NodeType: "c19custom", Tag: "c19tag"}}
		out := kit.RunApp(app.SetComponents(obj.Interface(), spy, scan), app.SetConfigLoader(loader.NewRawLoader(doc)))
		if out.OK() {
			if err := dc.Check(obj); err != nil {
				t.Fatalf("C19: %v%s", err, dc)
			}
		}
		if !out.OK() {
			t.Fatalf("C19: %s:%q with c19.text=%q failed: %v", tagKey, tag, text, out)
		}
		if got := obj.Elem().FieldByName("F").String(); got != want {
			t.Fatalf("C19: %s:%q with c19.text=%q bound %q, want %q (configured text is data: it is not split at commas)", tagKey, tag, text, got, want)
		}
		if !spy.seen {
			t.Fatalf("HARNESS: the observing post-processor did not see the point")
		}
		exp := ts.expected()
		if _, stated := exp["Required"]; !stated {
			// the scanner marks points without a required argument as required - with no items, or with "true": its own
			// default, not an argument of the tag (what matters is that it does not make the point optional)
			optionalNow := false
			for _, it := range spy.args["Required"] {
				if it == "false" {
					optionalNow = true
				}
			}
			if !optionalNow {
				delete(spy.args, "Required")
			}
		}
		if len(exp) != len(spy.args) {
			t.Fatalf("C19: %s:%q with c19.text=%q: after processing the point carries arguments %v, its tag states %v", tagKey, tag, text, spy.args, exp)
		}
		for name, items := range exp {
			got, ok := spy.args[name]
			if !ok {
				got, ok = spy.args[swapFirst(name)]
			}
			if !ok || !reflect.DeepEqual(got, items) {
				t.Fatalf("C19: %s:%q with c19.text=%q: argument %q is %q after processing, the tag states %q (all: %v)", tagKey, tag, text, name, got, items, spy.args)
			}
		}
		if !spy.seenG {
			t.Fatalf("HARNESS: the observing post-processor did not see the user-tagged twin point")
		}
		if spy.requiredG == ts.optional() {
			t.Fatalf("C19: c19tag:%q (a user tag scanned by a user scanner with default settings): IsRequired()=%v, explicit required=false in the tag: %v", tag, spy.requiredG, ts.optional())
		}
		if spy.required == ts.optional() {
			t.Fatalf("C19: %s:%q with c19.text=%q: IsRequired()=%v after processing, explicit required=false in the tag: %v", tagKey, tag, text, spy.required, ts.optional())
		}
		kit.Rec.Case(fmt.Sprintf("data %s:%q text=%q", tagKey, tag, text), strings.ContainsAny(text, ",="), "e2e-data-not-tag-text")
	})
}

// ---- parsing from several goroutines at once -------------------------------------------------------------------------

// TestParseConcurrently: parsing a tag is a pure function of the tag text; tags parsed on several goroutines at the
// same time (the container scans its components in parallel) come out exactly as when parsed alone.
func TestParseConcurrently(t *testing.T) {
	kit.Rec.Rule(rule)
	rapid.Check(t, func(t *rapid.T) {
		n := rapid.IntRange(2, 8).Draw(t, "goroutines")
		tags := make([]tagStruct, n)
		for i := range tags {
			tags[i] = genTag(t)
		}
		errs := make([]error, n)
		var wg sync.WaitGroup
		start := make(chan struct{})
		for i := range tags {
			wg.Add(1)
			go func(i int) {
				defer wg.Done()
				<-start
				for rep := 0; rep < 20 && errs[i] == nil; rep++ {
					errs[i] = checkFaithful(tags[i])
				}
			}(i)
		}
		close(start)
		wg.Wait()
		for i, err := range errs {
			if err != nil {
				t.Fatalf("C19: parsed concurrently with %d other tags: %v", n-1, err)
			}
			_ = i
		}
		var d []string
		args := 0
		for _, ts := range tags {
			d = append(d, ts.render())
			args += len(ts.Args)
		}
		kit.Rec.Case("concurrent "+strings.Join(d, " | "), args >= 2, "parsed-concurrently")
	})
}
