package c13

import (
	"fmt"
	"github.com/go-kid/ioc"
	"github.com/go-kid/ioc/container"
	"github.com/go-kid/ioc/container/support"
	"math"
	"os"
	"reflect"
	"strings"
	"sync"
	"testing"

	"github.com/go-kid/ioc/app"
	"github.com/go-kid/ioc/definition"
	"pgregory.net/rapid"
	"verif/harness/graph"
	"verif/harness/kit"
	"verif/harness/model"
	"verif/harness/zoo"
)

func TestMain(m *testing.M) { kit.Main(m) }

const rule = "node-family scenarios (eager/lazy, 0-2 observing post-processors) plus 0-6 runners over the three ordering classes with drawn Orders (ties, extremes) and a choice 'no failure | runner j fails'; oracle over the shared event log: every runner exactly once (or, with a failing runner, exactly the prefix up to it), every Run after every initialization event, the invocation sequence satisfies the ordering contract, Run returns an error iff a runner failed; non-trivial = >=2 runners of >=2 classes or a failing runner that is not the last; distinct by scenario shape + runner list + failing index; since rounds 7/8 also runners decorated by a post-processor (the decorator is what is started), a definition contributed by a factory post-processor, and a func-tag collector of runners (collecting is not calling); (own process) runners announced through ioc.Register started by ioc.Run with a registry of its own"

type RunPO struct{ zoo.Core }

func (r *RunPO) Priority()  {}
func (r *RunPO) Order() int { return r.B.OrderVal }
func (r *RunPO) Run() error { return run(r.B) }

type RunOO struct{ zoo.Core }

func (r *RunOO) Order() int { return r.B.OrderVal }
func (r *RunOO) Run() error { return run(r.B) }

type RunNO struct{ zoo.Core }

func (r *RunNO) Run() error { return run(r.B) }

// lazy runner: only reachable through the App's runner slice
type RunLazy struct{ zoo.Core }

func (r *RunLazy) LazyInit()  {}
func (r *RunLazy) Run() error { return run(r.B) }

// a runner that is also a (pass-through) component post-processor, e.g. a scheduler that collects its jobs while
// components are created and starts them in Run
type RunPP struct{ zoo.Core }

func (r *RunPP) Run() error                                                   { return run(r.B) }
func (r *RunPP) PostProcessBeforeInitialization(c any, n string) (any, error) { return c, nil }
func (r *RunPP) PostProcessAfterInitialization(c any, n string) (any, error)  { return c, nil }

// a runner whose type is not a struct (a named slice registered by pointer; element 0 carries its bookkeeping)
type SliceRun []*zoo.Beh

func (s *SliceRun) Run() error     { return run((*s)[0]) }
func (s *SliceRun) Naming() string { return (*s)[0].Alias }

// a runner that is also a component-factory post-processor (the sanctioned way for a component to get hold of the factory)
type RunFPP struct {
	zoo.Core
	factory     container.Factory
	Contributes *Contributed // an eager component whose definition this processor adds programmatically
}

// Contributed is an ordinary eager component that nobody registered as a singleton: a factory post-processor adds
// its definition through the public DefinitionRegistry. Nobody depends on it.
type Contributed struct{ zoo.Core }

func (r *RunFPP) Run() error { return run(r.B) }
func (r *RunFPP) PostProcessComponentFactory(f container.Factory) error {
	r.factory = f
	if r.Contributes != nil {
		f.GetDefinitionRegistry().GetMetaOrRegister(r.Contributes.B.Alias, r.Contributes)
	}
	return nil
}

// RunCollector collects everything that has a Run method through the func tag (any result): collecting is not calling.
type RunCollector struct {
	zoo.Core
	Rs []definition.ApplicationRunner `func:"Run,returns=*"`
}

// a runner that wires the application itself (container.Factory is implemented by the App alone) under a name that
// sorts in front of the App's: its creation starts first and pulls the App in, whose runner list needs it back
type RunAppRef struct {
	zoo.Core
	Fac container.Factory `wire:",required=false"`
}

func (r *RunAppRef) Run() error { return run(r.B) }

// RunDeco / runDecoPP: a plain post-processor decorates some runners after initialization (timing, tracing, a guard):
// the decorator is the runner the container holds from then on, so it is the decorator that is started.
type RunDeco struct {
	Target definition.ApplicationRunner
	B      *zoo.Beh
}

func (d *RunDeco) Run() error {
	d.B.Log.Add(zoo.Event{Kind: "wrun", ID: d.B.ID})
	return d.Target.Run()
}

type runDecoPP struct{ names map[string]*zoo.Beh }

func (*runDecoPP) Naming() string                                               { return "run-deco-pp" }
func (*runDecoPP) PostProcessBeforeInitialization(c any, n string) (any, error) { return c, nil }
func (p *runDecoPP) PostProcessAfterInitialization(c any, n string) (any, error) {
	if b, ok := p.names[n]; ok {
		if r, isRunner := c.(definition.ApplicationRunner); isRunner {
			return &RunDeco{Target: r, B: b}, nil
		}
	}
	return c, nil
}

// causeless: a legal error value whose Cause() is nil (e.g. an OpError without inner error).
type causeless struct{ op string }

func (c *causeless) Error() string { return "operation " + c.op + " failed" }
func (c *causeless) Cause() error  { return nil }

func run(b *zoo.Beh) error {
	b.RunCalls++
	b.Log.Add(zoo.Event{Kind: "run", ID: b.ID})
	switch b.FailRun {
	case 1:
		return zoo.ErrInjected
	case 2:
		return fmt.Errorf("wrapped: %w", zoo.ErrInjected)
	case 3:
		return &causeless{"run"}
	}
	return nil
}

// stateless runners: zero-size struct types (they all share one address)
var zruns [3]int

type ZRun0 struct{}
type ZRun1 struct{}
type ZRun2 struct{}

func (*ZRun0) Run() error { zruns[0]++; return nil }
func (*ZRun1) Run() error { zruns[1]++; return nil }
func (*ZRun2) Run() error { zruns[2]++; return nil }

// ghost: a runner that is NOT registered; it sits in the App's exported runner slice before the start.
type ghost struct{ calls int }

func (g *ghost) Run() error { g.calls++; return nil }

type rspec struct {
	Class int // 0 P, 1 O, 2 N, 3 lazy-unordered, 4 unordered + component post-processor, 5 unordered non-struct type, 6 unordered + factory post-processor, 7 unordered + every other role as well, 8 unordered, wires the App, created before it
	Ord   int
}

func cls(c int) int {
	if c >= 3 {
		return 2
	}
	return c
}

var ordGen = rapid.OneOf(rapid.SampledFrom([]int{math.MinInt, -1, 0, 1, 1, 2, math.MaxInt}), rapid.IntRange(-3, 3))

func mustBefore(a, b rspec) bool {
	ca, cb := cls(a.Class), cls(b.Class)
	if ca != cb {
		return ca < cb
	}
	return ca != 2 && a.Ord < b.Ord
}

func TestRunners(t *testing.T) {
	kit.Rec.Rule(rule)
	rapid.Check(t, func(t *rapid.T) {
		s := graph.Gen(t, graph.GenOpts{MinNodes: 1, MaxNodes: 4, Variants: "NNLP", Aliases: true})
		in := s.Instantiate()
		nr := rapid.IntRange(0, 6).Draw(t, "nrunners")
		specs := make([]rspec, nr)
		failing := -1
		if nr > 0 && rapid.Bool().Draw(t, "somefail") {
			failing = rapid.IntRange(0, nr-1).Draw(t, "failing")
		}
		ids := make([]int, nr)
		initFaults := 0
		var contributed *Contributed
		decorated := map[string]*zoo.Beh{}
		for i := range specs {
			specs[i].Class = rapid.IntRange(0, 8).Draw(t, "class")
			if specs[i].Class < 2 {
				specs[i].Ord = ordGen.Draw(t, "ord")
			}
			b := &zoo.Beh{ID: len(in.Comps) + len(in.Extra), Alias: fmt.Sprintf("runner-%d", i), Mask: "m0", Log: in.Log, OrderVal: specs[i].Ord}
			if i == failing {
				b.FailRun = rapid.IntRange(1, 3).Draw(t, "errkind")
			}
			// occasionally the runner's own initialisation fails (always, or only at the first attempt)
			if rapid.IntRange(0, 11).Draw(t, "initfault") == 0 {
				b.FailInit = rapid.SampledFrom([]int{zoo.FailAlways, zoo.FailOnce}).Draw(t, "initfaultmode")
				initFaults++
			}
			var c any
			switch specs[i].Class {
			case 0:
				c = &RunPO{zoo.Core{B: b}}
			case 1:
				c = &RunOO{zoo.Core{B: b}}
			case 2:
				c = &RunNO{zoo.Core{B: b}}
				if rapid.IntRange(0, 2).Draw(t, "decorated") == 0 {
					decorated[b.Alias] = b
				}
			case 4:
				c = &RunPP{zoo.Core{B: b}}
			case 5:
				c = &SliceRun{b}
				if b.FailInit != zoo.NoFault { // no Init method on this shape
					b.FailInit = zoo.NoFault
					initFaults--
				}
			case 6:
				fpp := &RunFPP{Core: zoo.Core{B: b}}
				if contributed == nil && rapid.Bool().Draw(t, "contributes") {
					cb := &zoo.Beh{ID: -50, Alias: "contributed-component", Mask: "m0", Log: in.Log}
					contributed = &Contributed{zoo.Core{B: cb}}
					cb.Self = contributed
					fpp.Contributes = contributed
				}
				c = fpp
			case 8:
				b.Alias = fmt.Sprintf("a-runner-%d", i) // sorts in front of github.com/go-kid/ioc/app/App
				c = &RunAppRef{Core: zoo.Core{B: b}}
			case 7:
				// every role at once: runner, closer, component / factory post-processor, definition scanner
				bb := b
				c = &zoo.Sink{Core: zoo.Core{B: b}, RunHook: func() error { return run(bb) }}
			default:
				c = &RunLazy{zoo.Core{B: b}}
			}
			b.Self = c
			ids[i] = b.ID
			in.IDs[reflect.ValueOf(c).Pointer()] = b.ID
			in.Extra = append(in.Extra, c)
		}
		nz := rapid.IntRange(0, 3).Draw(t, "nstateless")
		zruns = [3]int{}
		for i := 0; i < nz; i++ {
			in.Extra = append(in.Extra, []any{&ZRun0{}, &ZRun1{}, &ZRun2{}}[i])
		}
		// now and then the AfterPropertiesSet of one eager node fails (its Init would succeed): the start fails
		apsFault := ""
		if rapid.IntRange(0, 7).Draw(t, "apsfault") == 0 {
			for i, n := range s.Nodes {
				if n.Variant != 'L' {
					in.Behs[i].FailAPS = zoo.FailAlways
					apsFault, _ = model.NameOf(in.Comps[i])
					break
				}
			}
		}
		if len(decorated) > 0 {
			in.Extra = append(in.Extra, &runDecoPP{names: decorated})
		}
		if rapid.IntRange(0, 4).Draw(t, "collector") == 0 {
			cb := &zoo.Beh{ID: -51, Alias: "aa-run-collector", Mask: "m0", Log: in.Log}
			col := &RunCollector{Core: zoo.Core{B: cb}}
			cb.Self = col
			in.Extra = append(in.Extra, col)
		}
		in.Extra = rapid.Permutation(in.Extra).Draw(t, "extraorder")
		nobs := rapid.IntRange(0, 2).Draw(t, "nobs")
		veto := ""
		for k := 0; k < nobs; k++ {
			o := &graph.ObsPP{Tag: fmt.Sprintf("o%d", k), Log: in.Log}
			// now and then a before-initialization hook vetoes one eager node: (nil, error)
			if veto == "" && rapid.IntRange(0, 5).Draw(t, "veto") == 0 {
				for i, n := range s.Nodes {
					if n.Variant != 'L' {
						veto, _ = model.NameOf(in.Comps[i])
						o.FailBefore = veto
						break
					}
				}
			}
			in.Extra = append(in.Extra, o)
		}
		// sometimes the App's exported runner slice already holds something when the start begins
		var gh *ghost
		if nr > 0 && rapid.IntRange(0, 3).Draw(t, "prefilledrunners") == 0 {
			gh = &ghost{}
			in.Pre = func(a *app.App) { a.ApplicationRunners = []definition.ApplicationRunner{gh, gh} }
		}
		in.Run()
		desc := fmt.Sprintf("%s runners=%v failing=%d obs=%d initfaults=%d ghost=%v", s.Shape(), specs, failing, nobs, initFaults, gh != nil)
		if gh != nil && gh.calls > 0 {
			t.Fatalf("C13: a runner that is not registered (left over in the App's runner slice before the start) was invoked %d times\n%s", gh.calls, desc)
		}
		if in.Out.Panic != nil {
			t.Fatalf("C13: panic %v\n%s", in.Out.Panic, desc)
		}
		ev := in.Log.Snapshot()
		idToRunner := map[int]int{}
		for i, id := range ids {
			idToRunner[id] = i
		}
		var seq []int
		firstRun := -1
		wruns := map[int]int{}
		for i, e := range ev {
			if e.Kind == "wrun" {
				wruns[e.ID]++
			}
			if e.Kind == "run" {
				for _, b := range decorated {
					if b.ID == e.ID && wruns[e.ID] != 1 {
						t.Fatalf("C13: runner %q was decorated by a post-processor after its initialization - the decorator is the runner the container holds - yet the undecorated object was started (decorator started %d times before)\n%s", b.Alias, wruns[e.ID], desc)
					}
				}
				if firstRun < 0 {
					firstRun = i
				}
				seq = append(seq, idToRunner[e.ID])
			} else if firstRun >= 0 && (e.Kind == "init" || e.Kind == "aps" || e.Kind == "before" || e.Kind == "after" || e.Kind == "inst") {
				t.Fatalf("C13: a component was still being initialised (%v) after the first runner had been invoked\n%s", e, desc)
			}
		}
		// a start that failed before the runner phase is C09's subject
		preFailure := in.Out.Err != nil && len(seq) == 0 && (failing < 0 || initFaults > 0 || veto != "" || apsFault != "")
		if apsFault != "" && (in.Out.Err == nil || len(seq) > 0) {
			t.Fatalf("C13: AfterPropertiesSet of the eager component %q failed, yet Run returned %v and %d runner(s) ran\n%s", apsFault, in.Out.Err, len(seq), desc)
		}
		if veto != "" && in.Out.Err == nil {
			t.Fatalf("C13: a before-initialization hook failed for the eager component %q, yet Run returned nil and %d runner(s) ran\n%s", veto, len(seq), desc)
		}
		for i := 0; i < nz; i++ {
			want := 1
			if in.Out.Err != nil {
				want = zruns[i] // a failed / aborted start: covered by the sequence checks below
			}
			if zruns[i] != want {
				t.Fatalf("C13: stateless runner %d was invoked %d times in a start that returned nil (every registered runner exactly once)\n%s", i, zruns[i], desc)
			}
		}
		if preFailure {
			kit.Rec.Case(desc, false, "start-failed-before-runners")
			return
		}
		if contributed != nil && in.Out.Err == nil && contributed.B.InitCalls != 1 {
			t.Fatalf("C13: Run returned nil but the eager component whose definition a factory post-processor contributed was initialised %d times (runners: %v)\n%s", contributed.B.InitCalls, seq, desc)
		}
		// every eager scenario node initialised before the first runner
		if firstRun >= 0 {
			for i, n := range s.Nodes {
				if n.Variant != 'L' && in.Behs[i].InitCalls != 1 {
					t.Fatalf("C13: runners started although eager component %d had not finished Init\n%s", i, desc)
				}
			}
		}
		seen := map[int]int{}
		for _, r := range seq {
			seen[r]++
			if seen[r] > 1 {
				t.Fatalf("C13: runner %d invoked %d times (sequence %v)\n%s", r, seen[r], seq, desc)
			}
		}
		for i := 1; i < len(seq); i++ {
			if mustBefore(specs[seq[i]], specs[seq[i-1]]) {
				t.Fatalf("C13: runner %d %v invoked after runner %d %v: ordering contract broken (sequence %v)\n%s", seq[i], specs[seq[i]], seq[i-1], specs[seq[i-1]], seq, desc)
			}
		}
		labels := []string{}
		if initFaults > 0 {
			labels = append(labels, "runner-init-fault-survived")
		}
		if in.Out.Err == nil && len(seq) != nr {
			t.Fatalf("C13: Run returned nil but %d of %d registered runners were invoked (sequence %v)\n%s", len(seq), nr, seq, desc)
		}
		if failing < 0 {
			if in.Out.Err != nil {
				t.Fatalf("C13: no runner failed but Run returned %v\n%s", in.Out, desc)
			}
			if len(seq) != nr {
				t.Fatalf("C13: %d of %d runners invoked (sequence %v)\n%s", len(seq), nr, seq, desc)
			}
			labels = append(labels, "all-ran")
		} else {
			if in.Out.Err == nil {
				t.Fatalf("C13: runner %d returned an error but Run returned nil\n%s", failing, desc)
			}
			if len(seq) == 0 || seq[len(seq)-1] != failing {
				t.Fatalf("C13: runner %d failed, yet the invocation sequence is %v (a later runner was invoked, or the failing one never ran)\n%s", failing, seq, desc)
			}
			// everything not invoked must be allowed to come after everything invoked
			for u := range specs {
				if seen[u] > 0 {
					continue
				}
				for _, r := range seq {
					if mustBefore(specs[u], specs[r]) {
						t.Fatalf("C13: runner %d %v was skipped although the contract puts it before the invoked runner %d %v\n%s", u, specs[u], r, specs[r], desc)
					}
				}
			}
			labels = append(labels, "stopped-at-failing")
			if len(seq) < nr {
				labels = append(labels, "later-runners-suppressed")
			}
		}
		classes := map[int]bool{}
		for _, sp := range specs {
			classes[cls(sp.Class)] = true
		}
		nt := (nr >= 2 && len(classes) >= 2) || (failing >= 0 && len(seq) < nr)
		kit.Rec.Case(desc, nt, labels...)
	})
}

// ---- a runner contributed through the process-wide app.Settings -------------------------------------------------

type GRunner struct{ calls int }

func (g *GRunner) Run() error { g.calls++; return nil }

var gRunner = &GRunner{}
var gRunnerOnce sync.Once

// TestGlobalSettingsRunner (own process, VERIF_GLOBAL_SETTINGS=1): one runner is registered through
// app.Settings(app.SetComponents(..)), the others through the options of the individual start - some of which
// replace the registry / the factory. Every registered runner, the process-wide one included, runs exactly once
// per start.
func TestGlobalSettingsRunner(t *testing.T) {
	if os.Getenv("VERIF_GLOBAL_SETTINGS") != "1" {
		t.Skip("changes process-wide settings: runs in a process of its own")
	}
	kit.Rec.Rule(rule)
	gRunnerOnce.Do(func() { app.Settings(app.SetComponents(gRunner)) })
	rapid.Check(t, func(t *rapid.T) {
		s := graph.Gen(t, graph.GenOpts{MinNodes: 1, MaxNodes: 3, Variants: "NNLP", Aliases: true})
		in := s.Instantiate()
		nr := rapid.IntRange(0, 3).Draw(t, "nrunners")
		var behs []*zoo.Beh
		for i := 0; i < nr; i++ {
			b := &zoo.Beh{ID: len(in.Comps) + len(in.Extra), Alias: fmt.Sprintf("runner-%d", i), Mask: "m0", Log: in.Log}
			c := &RunNO{zoo.Core{B: b}}
			b.Self = c
			in.IDs[reflect.ValueOf(c).Pointer()] = b.ID
			in.Extra = append(in.Extra, c)
			behs = append(behs, b)
		}
		gRunner.calls = 0
		in.NoForeign = true // the process-wide runner would run in any other container started here as well
		in.Run()
		desc := fmt.Sprintf("global-settings %s runners=%d nohook=%v", s.Shape(), nr, s.NoHook)
		if !in.Out.OK() {
			t.Fatalf("C13: start failed: %v\n%s", in.Out, desc)
		}
		if gRunner.calls != 1 {
			t.Fatalf("C13: the runner registered through app.Settings ran %d times in this start (exactly once expected)\n%s", gRunner.calls, desc)
		}
		for i, b := range behs {
			if b.RunCalls != 1 {
				t.Fatalf("C13: runner %d ran %d times\n%s", i, b.RunCalls, desc)
			}
		}
		kit.Rec.Case(desc, !s.NoHook, "runner-through-global-settings")
	})
}

// ---- runners announced process-wide (ioc.Register), started through ioc.Run - own process ------------------------

type gregRunner struct {
	name  string
	calls int
	fail  bool
	log   *[]string
}

func (g *gregRunner) Naming() string { return g.name }
func (g *gregRunner) Run() error {
	g.calls++
	*g.log = append(*g.log, g.name)
	if g.fail {
		return zoo.ErrInjected
	}
	return nil
}

func TestStaticRegisteredRunners(t *testing.T) {
	if os.Getenv("VERIF_GLOBAL_SETTINGS") != "1" {
		t.Skip("changes process-wide state: runs in a process of its own")
	}
	kit.Rec.Rule(rule)
	var log []string
	r1, r2 := &gregRunner{name: "greg-runner-1", log: &log}, &gregRunner{name: "greg-runner-2", log: &log}
	ioc.Register(r1, r2)
	for round, mode := range []string{"plain", "own-registry", "own-registry+registered-fails", "plain"} {
		log = nil
		r1.calls, r2.calls = 0, 0
		r1.fail = strings.Contains(mode, "fails")
		local := &gregRunner{name: "local-runner", log: &log}
		ops := []app.SettingOption{app.SetComponents(local)}
		if strings.HasPrefix(mode, "own-registry") {
			ops = append([]app.SettingOption{app.SetRegistry(support.NewRegistry())}, ops...)
		}
		var err error
		if p := kit.Protect(func() { _, err = ioc.Run(ops...) }); p != nil {
			t.Fatalf("C13: ioc.Run panicked: %v", p)
		}
		desc := fmt.Sprintf("two runners announced through ioc.Register, one passed to ioc.Run (run %d, %s)", round, mode)
		if r1.fail {
			// the failing registered runner is a registered runner: Run reports its error, it ran once, and at most the
			// runners sequenced before it ran
			if err == nil || r1.calls != 1 {
				kit.DumpReplay("c13-registered-runners", map[string]any{"scenario": desc, "sequence": log, "error": fmt.Sprint(err)})
				t.Fatalf("C13: %s: the registered runner fails, yet Run returned %v after the sequence %v (the failing runner ran %d times)", desc, err, log, r1.calls)
			}
			kit.Rec.Case(desc, true, "registered-runners")
			continue
		}
		if err != nil || r1.calls != 1 || r2.calls != 1 || local.calls != 1 {
			kit.DumpReplay("c13-registered-runners", map[string]any{"scenario": desc, "sequence": log, "error": fmt.Sprint(err)})
			t.Fatalf("C13: %s: Run returned %v; invocations: registered %d / %d, local %d (each exactly once expected; sequence %v)", desc, err, r1.calls, r2.calls, local.calls, log)
		}
		kit.Rec.Case(desc, mode != "plain", "registered-runners")
	}
}
