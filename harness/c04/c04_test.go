package c04

import (
	"errors"
	"fmt"
	"strings"
	"testing"

	"github.com/go-kid/ioc/component_definition"
	"github.com/go-kid/ioc/container"
	"github.com/go-kid/ioc/container/support"
	"pgregory.net/rapid"
	"verif/harness/graph"
	"verif/harness/kit"
	"verif/harness/model"
	"verif/harness/zoo"
)

func TestMain(m *testing.M) { kit.Main(m) }

const rule = "(a) state machine on the real SingletonComponentRegistry: create / nested create (depth<=4, 4 names) / lookups with and without early references / in-creation polls / failing early factories / failing creations / lookups after failures, invariants after every operation; (b) the same invariants over call histories recorded from real starts with injected callback faults, plus GetComponentByName after the failure; non-trivial = history has a nested creation with an early lookup of an enclosing name, or a failure followed by a lookup; distinct by operation history; since round 7 also repeated bulk lookups (GetComponents) after real starts: only published instances come back"

var errBoom = errors.New("boom")

type nameState struct {
	creating   bool
	early      *component_definition.Meta // early reference handed out in the current attempt
	earlyAdded bool
	earlyFails bool // the pending early-reference factory of this attempt always fails
	earlyRuns  int  // successful runs of the early factory in the current attempt
	published  *component_definition.Meta
	failedOnce bool
	attempts   int
}

type machine struct {
	t     *rapid.T
	other container.SingletonComponentRegistry
	reg   container.SingletonComponentRegistry
	st    map[string]*nameState
	stack []string
	hist  []string
	flags map[string]bool
	ops   int
}

var allNames = []string{"a", "b", "c", "d"}

func newMeta(tag string) *component_definition.Meta {
	// a Meta is opaque to the registry; give each its own identity
	return component_definition.NewMeta(&struct{ Tag string }{tag})
}

func (m *machine) log(f string, a ...any) {
	m.hist = append(m.hist, strings.Repeat("  ", len(m.stack))+fmt.Sprintf(f, a...))
}

func (m *machine) fail(f string, a ...any) {
	m.t.Fatalf("C04: %s\nhistory:\n%s", fmt.Sprintf(f, a...), strings.Join(m.hist, "\n"))
}

// check compares every observable of every name with the model (read-only lookups only:
// allowEarly=true would run pending factories, so it is only used where the model says nothing is pending).
func (m *machine) check() {
	for _, n := range allNames {
		s := m.st[n]
		inC := m.reg.IsSingletonCurrentlyInCreation(n)
		if inC != s.creating {
			m.fail("IsSingletonCurrentlyInCreation(%q) = %v, model says %v", n, inC, s.creating)
		}
		got, err := m.reg.GetSingleton(n, false)
		if err != nil {
			m.fail("GetSingleton(%q,false) returned error %v", n, err)
		}
		switch {
		case s.published != nil:
			if got != s.published {
				m.fail("%q is published as %p but GetSingleton(false) returns %p", n, s.published, got)
			}
		case s.creating:
			if got != s.early {
				m.fail("%q is in creation: GetSingleton(false) must return the early reference already handed out (%p), got %p", n, s.early, got)
			}
		default:
			if got != nil {
				m.fail("%q is neither published nor in creation (failed=%v) but GetSingleton(false) returns %p", n, s.failedOnce, got)
			}
		}
		if s.creating && s.earlyAdded && s.early == nil && s.earlyFails {
			// a pending factory that always fails can be probed safely: it stays pending and fails again, however often
			// it was tried before
			for try := 1; try <= 2; try++ {
				if got3, err3 := m.reg.GetSingleton(n, true); err3 == nil {
					m.fail("%q is in creation with a (failing) early-reference factory pending: early-allowed lookup no. %d must report its error, got %p and no error", n, try, got3)
				}
			}
			m.flags["failing-early-factory-probed-twice"] = true
		}
		if !s.creating || !s.earlyAdded || s.early != nil {
			// no pending factory according to the model: the early-allowed lookup must agree too
			got2, err2 := m.reg.GetSingleton(n, true)
			if err2 != nil {
				m.fail("GetSingleton(%q,true) returned error %v with no pending factory", n, err2)
			}
			if got2 != got {
				m.fail("GetSingleton(%q,true)=%p differs from GetSingleton(%q,false)=%p with no pending factory (failed before=%v)", n, got2, n, got, s.failedOnce)
			}
		}
	}
}

// get mimics the factory's lookup protocol: cache first (early allowed), else create.
func (m *machine) get(n string, depth int) (*component_definition.Meta, error) {
	s := m.st[n]
	got, err := m.reg.GetSingleton(n, true)
	m.log("get(%s,early) -> %p err=%v", n, got, err)
	m.ops++
	if err != nil {
		return nil, err
	}
	if got != nil {
		switch {
		case s.published != nil:
			if got != s.published {
				m.fail("lookup of published %q returned %p, published %p", n, got, s.published)
			}
		case s.creating:
			if s.early == nil {
				s.early = got
			} else if got != s.early {
				m.fail("second early reference for %q: %p then %p", n, s.early, got)
			}
			if s.earlyRuns > 1 {
				m.fail("early factory of %q ran %d times", n, s.earlyRuns)
			}
			m.flags["early-lookup-of-enclosing"] = true
		default:
			m.fail("lookup of %q returned %p although it is neither published nor in creation (failed before: %v)", n, got, s.failedOnce)
		}
		return got, nil
	}
	if s.published != nil {
		m.fail("published %q not found by lookup", n)
	}
	if s.creating {
		if s.earlyAdded {
			m.fail("%q is in creation with an early factory, yet the early-allowed lookup returned nil", n)
		}
		return nil, nil // creation without exposure: nothing to see, and we must not re-enter
	}
	if s.failedOnce {
		m.flags["lookup-after-failure"] = true
	}
	if depth >= 4 {
		return nil, nil
	}
	return m.create(n, depth+1)
}

func (m *machine) create(n string, depth int) (*component_definition.Meta, error) {
	s := m.st[n]
	if s.creating {
		panic("harness: re-entrant create")
	}
	wasPublished := s.published
	ran := false
	m.log("create(%s)", n)
	if len(m.stack) > 0 {
		m.flags["nested-create"] = true
	}
	res, err := m.reg.GetSingletonOrCreateByFactory(n, container.FuncSingletonFactory(func() (*component_definition.Meta, error) {
		ran = true
		s.creating, s.early, s.earlyAdded, s.earlyFails, s.earlyRuns = true, nil, false, false, 0
		s.attempts++
		m.stack = append(m.stack, n)
		defer func() { m.stack = m.stack[:len(m.stack)-1] }()
		if !m.reg.IsSingletonCurrentlyInCreation(n) {
			m.fail("inside its factory %q is not reported as in creation", n)
		}
		own := newMeta(fmt.Sprintf("%s#%d", n, s.attempts))
		expose := rapid.IntRange(0, 5).Draw(m.t, "expose") > 0
		if expose {
			earlyFails := rapid.IntRange(0, 5).Draw(m.t, "earlyfails") == 0
			wrapEarly := rapid.Bool().Draw(m.t, "wrapearly")
			m.reg.AddSingletonFactory(n, container.FuncSingletonFactory(func() (*component_definition.Meta, error) {
				if earlyFails {
					m.log("early factory of %s fails", n)
					return nil, errBoom
				}
				s.earlyRuns++
				if wrapEarly {
					return newMeta("early:" + n), nil
				}
				return own, nil
			}))
			s.earlyAdded, s.earlyFails = true, earlyFails
			m.log("addFactory(%s) fails=%v wrap=%v", n, earlyFails, wrapEarly)
		}
		steps := rapid.IntRange(0, 4).Draw(m.t, "steps")
		for i := 0; i < steps; i++ {
			switch rapid.SampledFrom([]int{0, 0, 1, 1, 2, 2, 3, 3, 4, 5}).Draw(m.t, "act") {
			case 5:
				// ANOTHER registry (another container of the process, built from the same component types, so the names
				// are the same) runs a complete creation of this very name meanwhile: registries share nothing
				if m.other == nil {
					m.other = support.DefaultSingletonComponentRegistry()
				}
				foreign := newMeta(n + "#foreign")
				got, err := m.other.GetSingletonOrCreateByFactory(n, container.FuncSingletonFactory(func() (*component_definition.Meta, error) {
					if !m.other.IsSingletonCurrentlyInCreation(n) {
						m.fail("the other registry does not report %q as in creation inside its own factory", n)
					}
					return foreign, nil
				}))
				m.log("other registry: create(%s) -> %p err=%v", n, got, err)
				if err != nil || got == nil {
					m.fail("creation of %q in the other registry failed: %v", n, err)
				}
				if !m.reg.IsSingletonCurrentlyInCreation(n) {
					m.fail("%q is in creation here; a completed creation of the same name in ANOTHER registry removed the mark", n)
				}
				if m.other.IsSingletonCurrentlyInCreation(n) {
					m.fail("the other registry still reports %q as in creation after it completed (marks shared between registries?)", n)
				}
				m.flags["other-registry-same-name"] = true
			case 4:
				// A lookup of the SAME name issued before the instance is exposed (e.g. from a before-instantiation
				// callback) runs a complete nested creation, which publishes. The enclosing attempt cannot complete
				// any more and fails: what the completed creation published must stay published.
				if expose || s.published != nil {
					continue
				}
				inner := newMeta(fmt.Sprintf("%s#%d-nested", n, s.attempts))
				res, err := m.reg.GetSingletonOrCreateByFactory(n, container.FuncSingletonFactory(func() (*component_definition.Meta, error) { return inner, nil }))
				m.log("nested complete create(%s) inside its own creation -> %p err=%v", n, res, err)
				if err != nil || res != inner {
					m.fail("nested complete creation of %q returned %p,%v want %p", n, res, err, inner)
				}
				s.published = inner
				m.flags["completed-nested-creation-then-outer-failure"] = true
				return nil, errBoom
			case 0, 1:
				x := rapid.SampledFrom(allNames).Draw(m.t, "dep")
				if !expose && (m.st[x].creating) {
					continue
				}
				if _, err := m.get(x, depth); err != nil {
					// a failing early-reference factory of an enclosing creation: the caller may survive it (a lookup in a
					// callback whose error is handled) and go on - later lookups of that name must see the same state again
					if m.st[x].creating && rapid.Bool().Draw(m.t, "survive") {
						m.log("early reference of %s failed: survived", x)
						m.flags["survived-early-factory-failure"] = true
						continue
					}
					m.log("dependency %s failed: propagate", x)
					return nil, err
				}
			case 2:
				x := rapid.SampledFrom(allNames).Draw(m.t, "peek")
				got, err := m.reg.GetSingleton(x, false)
				m.log("peek(%s) -> %p err=%v", x, got, err)
				xs := m.st[x]
				if err != nil {
					m.fail("GetSingleton(%q,false) error %v", x, err)
				}
				want := xs.published
				if want == nil && xs.creating {
					want = xs.early
				}
				if got != want {
					m.fail("GetSingleton(%q,false) = %p, model says %p", x, got, want)
				}
			case 3:
				// exposing again inside the same creation must not change what lookups see:
				// the early reference that was handed out stays THE early reference
				if expose && !s.earlyFails && rapid.Bool().Draw(m.t, "reexpose") {
					m.reg.AddSingletonFactory(n, container.FuncSingletonFactory(func() (*component_definition.Meta, error) {
						if s.early != nil {
							m.fail("a second early-reference factory of %q was run although an early reference had already been handed out", n)
						}
						s.earlyRuns++
						return own, nil
					}))
					m.log("addFactory(%s) again", n)
					m.flags["re-exposed"] = true
				}
				m.check()
				// get-or-create straight on an already published name (no preceding cache lookup)
				x := rapid.SampledFrom(allNames).Draw(m.t, "direct")
				if m.st[x].published != nil {
					if _, err := m.create(x, depth+1); err != nil {
						m.fail("create on published %q returned error %v", x, err)
					}
					m.flags["direct-create-on-published"] = true
				}
			}
		}
		if rapid.IntRange(0, 4).Draw(m.t, "fail") == 0 {
			m.log("creation of %s fails", n)
			return nil, errBoom
		}
		// what the factory publishes: its own meta, the early reference if one was taken, or a late proxy
		switch rapid.IntRange(0, 3).Draw(m.t, "result") {
		case 0:
			if s.early != nil {
				return s.early, nil
			}
		case 1:
			return newMeta("late:" + n), nil
		}
		return own, nil
	}))
	m.ops++
	m.log("create(%s) -> %p err=%v ran=%v", n, res, err, ran)
	if wasPublished != nil {
		if ran {
			m.fail("creation factory of already published %q ran again", n)
		}
		if res != wasPublished || err != nil {
			m.fail("create on published %q returned %p,%v want %p", n, res, err, wasPublished)
		}
		return res, err
	}
	if !ran {
		m.fail("create(%q) did not run the factory although nothing is published", n)
	}
	s.creating = false
	if err != nil {
		if s.published == nil {
			s.failedOnce = true
		}
		s.early, s.earlyAdded = nil, false
		if res != nil {
			m.fail("failed creation of %q returned a non-nil instance", n)
		}
	} else {
		if res == nil {
			m.fail("successful creation of %q returned nil", n)
		}
		s.published = res
		s.early = nil
	}
	m.check()
	return res, err
}

func TestRegistryMachine(t *testing.T) {
	kit.Rec.Rule(rule)
	rapid.Check(t, func(t *rapid.T) {
		m := &machine{t: t, reg: support.DefaultSingletonComponentRegistry(), st: map[string]*nameState{}, flags: map[string]bool{}}
		for _, n := range allNames {
			m.st[n] = &nameState{}
		}
		t.Repeat(map[string]func(*rapid.T){
			"get": func(t *rapid.T) {
				m.t = t
				n := rapid.SampledFrom(allNames).Draw(t, "name")
				_, _ = m.get(n, 0)
			},
			"peek": func(t *rapid.T) {
				m.t = t
				n := rapid.SampledFrom(allNames).Draw(t, "name")
				got, err := m.reg.GetSingleton(n, rapid.Bool().Draw(t, "early"))
				m.log("top peek(%s) -> %p err=%v", n, got, err)
				if err != nil {
					m.fail("top-level lookup of %q errored: %v", n, err)
				}
				if got != m.st[n].published {
					m.fail("top-level lookup of %q returned %p, published is %p (failed before: %v)", n, got, m.st[n].published, m.st[n].failedOnce)
				}
				if m.st[n].failedOnce && m.st[n].published == nil {
					m.flags["lookup-after-failure"] = true
				}
			},
			"createDirect": func(t *rapid.T) {
				m.t = t
				n := rapid.SampledFrom(allNames).Draw(t, "name")
				if m.st[n].published == nil {
					t.Skip("not published")
				}
				if _, err := m.create(n, 0); err != nil {
					m.fail("create on published %q returned error %v", n, err)
				}
				m.flags["direct-create-on-published"] = true
			},
			"remove": func(t *rapid.T) {
				m.t = t
				n := rapid.SampledFrom(allNames).Draw(t, "name")
				// RemoveSingleton is part of the registry interface: afterwards nothing of the name is visible
				m.reg.RemoveSingleton(n)
				m.log("remove(%s)", n)
				*m.st[n] = nameState{attempts: m.st[n].attempts}
				m.flags["removed"] = true
			},
			"": func(t *rapid.T) { m.t = t; m.check() },
		})
		var labels []string
		for f := range m.flags {
			labels = append(labels, f)
		}
		nt := (m.flags["nested-create"] && m.flags["early-lookup-of-enclosing"]) || m.flags["lookup-after-failure"]
		kit.Rec.Case(strings.Join(m.hist, ";"), nt, labels...)
	})
}

// ---------------------------------------------------------------------------
// (b) histories of real starts

func checkHistory(ev []graph.TraceEvent) error {
	type st struct {
		depth     int
		early     *component_definition.Meta
		runs      int
		published *component_definition.Meta
		failed    bool
	}
	s := map[string]*st{}
	get := func(n string) *st {
		if s[n] == nil {
			s[n] = &st{}
		}
		return s[n]
	}
	for i, e := range ev {
		x := get(e.Name)
		switch e.Op {
		case "create-enter":
			if x.published == nil && x.depth > 0 {
				return fmt.Errorf("event %d: %q is created again while its creation is still in progress (a lookup during creation must observe the early reference, not start a second creation)", i, e.Name)
			}
			if x.published == nil {
				x.depth++
				x.failed = false
				x.early, x.runs = nil, 0
			}
		case "create-exit":
			if x.published != nil {
				if e.Result != x.published {
					return fmt.Errorf("event %d: create on published %q returned another instance", i, e.Name)
				}
				continue
			}
			x.depth--
			if e.Err {
				x.failed = true
				x.early = nil
			} else {
				x.published = e.Result
			}
		case "factory-run":
			if !e.Err {
				x.runs++
				if x.runs > 1 {
					return fmt.Errorf("event %d: early-reference factory of %q ran %d times in one creation", i, e.Name, x.runs)
				}
			}
		case "get":
			if e.Err || e.Result == nil {
				continue
			}
			switch {
			case x.published != nil:
				if e.Result != x.published {
					return fmt.Errorf("event %d: lookup of published %q returned %p, published %p", i, e.Name, e.Result, x.published)
				}
			case x.depth > 0:
				if x.early == nil {
					x.early = e.Result
				} else if x.early != e.Result {
					return fmt.Errorf("event %d: two different early references for %q", i, e.Name)
				}
			default:
				return fmt.Errorf("event %d: lookup of %q returned an instance although it is neither published nor in creation (failed=%v)", i, e.Name, x.failed)
			}
		case "increation":
			if x.published != nil && e.Flag {
				return fmt.Errorf("event %d: published %q reported as in creation", i, e.Name)
			}
		}
	}
	return nil
}

func TestRealStartHistories(t *testing.T) {
	kit.Rec.Rule(rule)
	rapid.Check(t, func(t *rapid.T) {
		s := graph.Gen(t, graph.GenOpts{MinNodes: 2, MaxNodes: 6, Variants: "NNLLPH", Aliases: true, Faults: true, Lookups: true})
		for i := range s.Nodes {
			if s.Nodes[i].FailInit == zoo.FailAlways && rapid.Bool().Draw(t, "once") {
				s.Nodes[i].FailInit = zoo.FailOnce
			}
		}
		in := s.Instantiate()
		in.ForceHook = true
		// sometimes a substituting post-processor takes part (early references that differ from the raw component)
		if rapid.IntRange(0, 2).Draw(t, "withwrap") == 0 {
			wrap := &graph.WrapPP{Plan: map[string]graph.WrapPlan{}}
			for i, n := range s.Nodes {
				if n.Variant != 'N' && rapid.Bool().Draw(t, "wrap") {
					nm, _ := model.NameOf(in.Comps[i])
					wrap.Plan[nm] = graph.WrapPlan{Early: rapid.IntRange(0, 1).Draw(t, "e"), After: rapid.IntRange(0, 2).Draw(t, "a")}
				}
			}
			in.Extra = append(in.Extra, wrap)
		}
		// sometimes a post-processor fetches a component programmatically while another one is being populated
		// (after-instantiation callback): lookups issued from inside a creation, at a point the wiring never reaches
		var looker *graph.ObsPP
		if rapid.IntRange(0, 1).Draw(t, "instlookup") == 0 {
			looker = &graph.ObsPP{Tag: "c04-looker", Log: in.Log, InstLookup: map[string]string{}, NoBudget: true}
			for i := range s.Nodes {
				if rapid.IntRange(0, 2).Draw(t, "looksup") == 0 {
					from, _ := model.NameOf(in.Comps[i])
					to, _ := model.NameOf(in.Comps[rapid.IntRange(0, len(s.Nodes)-1).Draw(t, "lookuptarget")])
					looker.InstLookup[from] = to
				}
			}
			in.Extra = append(in.Extra, looker)
		}
		in.Run()
		desc := "real " + s.Shape()
		if looker != nil {
			desc += fmt.Sprintf(" inst-lookups=%v", looker.InstLooked)
		}
		if in.Out.Panic != nil {
			t.Fatalf("C04: start-up panicked: %v\n%s", in.Out.Panic, desc)
		}
		if err := checkHistory(in.Tracer.Events); err != nil {
			t.Fatalf("C04: %v\nscenario: %s\nhistory tail:\n%s", err, desc, in.Tracer.Dump(60))
		}
		nt := false
		var labels []string
		if in.Out.Err != nil {
			labels = append(labels, "start-failed")
			// every name whose creation failed: a later lookup must not hand out the half-built instance
			failedNames := map[string]bool{}
			for _, e := range in.Tracer.Events {
				if e.Op == "create-exit" && e.Err {
					failedNames[e.Name] = true
				}
			}
			for n := range failedNames {
				var got any
				var err error
				if p := kit.Protect(func() { got, err = in.Out.App.GetComponentByName(n) }); p != nil {
					t.Fatalf("C04: GetComponentByName(%q) after the failed start panicked: %v\n%s", n, p, desc)
				}
				nt = true
				if err != nil {
					labels = append(labels, "lookup-after-failure-errors")
					continue
				}
				labels = append(labels, "lookup-after-failure-recreates")
				// a re-attempt that succeeded: the component must really be initialised
				if _, isW := got.(*zoo.W); isW {
					continue
				}
				if nd, ok := got.(zoo.INode); ok {
					b := nd.Beh()
					if b.InitCalls == 0 || (b.FailInit == zoo.FailAlways) || (b.FailAPS == zoo.FailAlways) {
						t.Fatalf("C04: GetComponentByName(%q) after its creation failed returns the instance with nil error although its initialisation never completed (Init calls %d)\n%s", n, b.InitCalls, desc)
					}
					if b.FailInit == zoo.FailOnce && b.InitCalls < 2 {
						t.Fatalf("C04: GetComponentByName(%q) returns the half-built instance of the failed attempt (Init ran %d time, failed)\n%s", n, b.InitCalls, desc)
					}
				}
			}
			if err := checkHistory(in.Tracer.Events); err != nil {
				t.Fatalf("C04 (after post-failure lookups): %v\nscenario: %s\nhistory tail:\n%s", err, desc, in.Tracer.Dump(60))
			}
		} else {
			for _, e := range in.Tracer.Events {
				if e.Op == "factory-run" {
					nt = true
					labels = append(labels, "early-reference-taken")
					break
				}
			}
			// after the start: whatever way a name is asked for - by name, or through the bulk API, repeatedly - what
			// comes back is the instance the registry published for it
			published := map[any]string{}
			for _, e := range in.Tracer.Events {
				if e.Op == "create-exit" && !e.Err && e.Result != nil {
					published[e.Result.Raw] = e.Name
				}
			}
			for round := 0; round < 2; round++ {
				var all []any
				var aerr error
				if p := kit.Protect(func() { all, aerr = in.Out.App.GetComponents() }); p != nil || aerr != nil {
					break // a lazy component that cannot be created: the bulk call reports it (not this check's subject)
				}
				for _, e := range in.Tracer.Events {
					if e.Op == "create-exit" && !e.Err && e.Result != nil {
						published[e.Result.Raw] = e.Name
					}
				}
				for _, c := range all {
					if _, ok := published[c]; !ok {
						t.Fatalf("C04: GetComponents (call %d after the start) returned %T %p, which the registry never published for any name (published: %d instances)\n%s", round+1, c, c, len(published), desc)
					}
				}
				labels = append(labels, "bulk-lookup-after-start")
			}
		}
		kit.Rec.Case(desc, nt, dedupS(labels)...)
	})
}

func dedupS(xs []string) []string {
	m := map[string]bool{}
	var out []string
	for _, x := range xs {
		if !m[x] {
			m[x] = true
			out = append(out, x)
		}
	}
	return out
}
