// Package kit holds what every property package shares: the silent logger,
// the evidence recorder, App runners with panic capture, and replay dumps.
package kit

import (
	"encoding/binary"
	"encoding/json"
	"fmt"
	"hash/fnv"
	"os"
	"path/filepath"
	"sort"
	"strings"
	"sync"
	"sync/atomic"
	"testing"
	"time"

	"github.com/go-kid/ioc/app"
	"github.com/go-kid/ioc/syslog"
)

// ---------------------------------------------------------------------------
// silent logger (Panic* still panics: duplicate registration relies on it)

type quiet struct{}

func (quiet) Level(syslog.Lv) syslog.Logger  { return quiet{} }
func (quiet) Pref(any) syslog.Logger         { return quiet{} }
func (quiet) Trace(...any)                   {}
func (quiet) Tracef(string, ...any)          {}
func (quiet) Debug(...any)                   {}
func (quiet) Debugf(string, ...any)          {}
func (quiet) Info(...any)                    {}
func (quiet) Infof(string, ...any)           {}
func (quiet) Warn(...any)                    {}
func (quiet) Warnf(string, ...any)           {}
func (quiet) Error(...any)                   {}
func (quiet) Errorf(string, ...any)          {}
func (quiet) Panic(v ...any)                 { panic(fmt.Sprint(v...)) }
func (quiet) Panicf(format string, v ...any) { panic(fmt.Sprintf(format, v...)) }
func (quiet) Fatal(v ...any)                 { panic("FATAL: " + fmt.Sprint(v...)) }
func (quiet) Fatalf(format string, v ...any) { panic("FATAL: " + fmt.Sprintf(format, v...)) }

// RecLogger records error-level lines. Appends are guarded by a mutex (the container logs from several goroutines
// at once); UnsyncLen reads WITHOUT the mutex, which is only race free when everything the container logged
// happened-before the reader - e.g. after a call that is documented to wait for the goroutines it started.
type RecLogger struct {
	quiet
	mu    sync.Mutex
	lines []string
}

func (r *RecLogger) Level(syslog.Lv) syslog.Logger { return r }
func (r *RecLogger) Pref(any) syslog.Logger        { return r }
func (r *RecLogger) Error(v ...any)                { r.add(fmt.Sprint(v...)) }
func (r *RecLogger) Errorf(f string, v ...any)     { r.add(fmt.Sprintf(f, v...)) }
func (r *RecLogger) add(s string) {
	r.mu.Lock()
	r.lines = append(r.lines, s)
	r.mu.Unlock()
}

// UnsyncLen deliberately reads without synchronisation (see RecLogger).
func (r *RecLogger) UnsyncLen() int { return len(r.lines) }

// FmtLogger discards everything, but only after formatting it - like a real logger at trace level would: every
// String() / Format method of the arguments runs (formatting must have no effect on what the container does).
type FmtLogger struct{ quiet }

var fmtSink int

func (f FmtLogger) Level(syslog.Lv) syslog.Logger { return f }
func (f FmtLogger) Pref(any) syslog.Logger        { return f }
func (FmtLogger) Trace(v ...any)                  { fmtSink += len(fmt.Sprint(v...)) }
func (FmtLogger) Tracef(s string, v ...any)       { fmtSink += len(fmt.Sprintf(s, v...)) }
func (FmtLogger) Debug(v ...any)                  { fmtSink += len(fmt.Sprint(v...)) }
func (FmtLogger) Debugf(s string, v ...any)       { fmtSink += len(fmt.Sprintf(s, v...)) }
func (FmtLogger) Info(v ...any)                   { fmtSink += len(fmt.Sprint(v...)) }
func (FmtLogger) Infof(s string, v ...any)        { fmtSink += len(fmt.Sprintf(s, v...)) }
func (FmtLogger) Warn(v ...any)                   { fmtSink += len(fmt.Sprint(v...)) }
func (FmtLogger) Warnf(s string, v ...any)        { fmtSink += len(fmt.Sprintf(s, v...)) }
func (FmtLogger) Error(v ...any)                  { fmtSink += len(fmt.Sprint(v...)) }
func (FmtLogger) Errorf(s string, v ...any)       { fmtSink += len(fmt.Sprintf(s, v...)) }

// Rec0 is the process-wide recording logger, installed by Main when VERIF_REC_LOGGER=1.
var Rec0 *RecLogger

// Silence installs the discard logger. Must run before the first syslog.Pref
// call because the prefix cache freezes whatever logger was current.
func Silence() { syslog.SetLogger(quiet{}) }

// ---------------------------------------------------------------------------
// evidence recorder

type Recorder struct {
	mu          sync.Mutex
	Evaluations int64            `json:"evaluations"`
	Labels      map[string]int64 `json:"labels"`
	Excluded    map[string]int64 `json:"excluded"`
	Samples     []string         `json:"samples"`
	Rules       []string         `json:"rules"`
	Known       []KnownStatus    `json:"known"`
	Exhaustive  map[string]bool  `json:"exhaustive"`
	hashes      map[uint64]struct{}
	maxSamples  int
}

type KnownStatus struct {
	Class  string `json:"class"`
	Fails  bool   `json:"fails"`
	Detail string `json:"detail"`
}

var Rec = &Recorder{Labels: map[string]int64{}, Excluded: map[string]int64{}, Exhaustive: map[string]bool{}, hashes: map[uint64]struct{}{}, maxSamples: 12}

// Rule records (once) the textual rule a test uses for "non-trivial".
func (r *Recorder) Rule(s string) {
	r.mu.Lock()
	defer r.mu.Unlock()
	for _, x := range r.Rules {
		if x == s {
			return
		}
	}
	r.Rules = append(r.Rules, s)
}

// Case records one evaluated case. desc is a canonical description (used for
// distinctness); nontrivial says whether it meets the test's stated rule.
func (r *Recorder) Case(desc string, nontrivial bool, labels ...string) {
	r.mu.Lock()
	defer r.mu.Unlock()
	r.Evaluations++
	for _, l := range labels {
		r.Labels[l]++
	}
	if nontrivial {
		h := fnv.New64a()
		h.Write([]byte(desc))
		k := h.Sum64()
		if _, ok := r.hashes[k]; !ok {
			r.hashes[k] = struct{}{}
			// keep a spread of samples: the first few distinct ones
			if len(r.Samples) < r.maxSamples {
				if len(desc) > 1500 {
					desc = desc[:1500] + "…"
				}
				r.Samples = append(r.Samples, desc)
			}
		}
	}
}

func (r *Recorder) Label(l string) {
	r.mu.Lock()
	r.Labels[l]++
	r.mu.Unlock()
}

func (r *Recorder) Exclude(class string) {
	r.mu.Lock()
	r.Excluded[class]++
	r.mu.Unlock()
}

func (r *Recorder) KnownWitness(class string, fails bool, detail string) {
	r.mu.Lock()
	r.Known = append(r.Known, KnownStatus{class, fails, detail})
	r.mu.Unlock()
}

func (r *Recorder) MarkExhaustive(what string) {
	r.mu.Lock()
	r.Exhaustive[what] = true
	r.mu.Unlock()
}

func (r *Recorder) flush() {
	path := os.Getenv("VERIF_STATS")
	if path == "" {
		return
	}
	r.mu.Lock()
	defer r.mu.Unlock()
	b, _ := json.Marshal(r)
	_ = os.WriteFile(path, b, 0o644)
	keys := make([]uint64, 0, len(r.hashes))
	for k := range r.hashes {
		keys = append(keys, k)
	}
	sort.Slice(keys, func(i, j int) bool { return keys[i] < keys[j] })
	buf := make([]byte, 8*len(keys))
	for i, k := range keys {
		binary.LittleEndian.PutUint64(buf[8*i:], k)
	}
	_ = os.WriteFile(path+".hashes", buf, 0o644)
}

// Main is the TestMain body of every property package.
func Main(m *testing.M) {
	if os.Getenv("VERIF_FMT_LOGGER") == "1" {
		syslog.SetLogger(FmtLogger{})
	} else if os.Getenv("VERIF_REC_LOGGER") == "1" {
		Rec0 = &RecLogger{}
		syslog.SetLogger(Rec0)
	} else if os.Getenv("VERIF_REAL_LOGGER") == "1" {
		// keep the library's own logger (its code is part of what the race detector watches), errors only
		syslog.Level(syslog.LvError)
	} else {
		Silence()
	}
	code := m.Run()
	Rec.flush()
	os.Exit(code)
}

// ---------------------------------------------------------------------------
// known-finding classes (committed list handed over by the driver)

var knownOnce sync.Once
var knownSet map[string]bool

// IsKnown reports whether class is listed as `known:` in KNOWN_FINDINGS.txt.
// The driver passes the list in VERIF_KNOWN; the harness never writes it.
func IsKnown(class string) bool {
	knownOnce.Do(func() {
		knownSet = map[string]bool{}
		for _, c := range strings.Split(os.Getenv("VERIF_KNOWN"), ",") {
			if c = strings.TrimSpace(c); c != "" {
				knownSet[c] = true
			}
		}
	})
	return knownSet[class]
}

// ---------------------------------------------------------------------------
// running the real container

type Outcome struct {
	Err   error
	Panic any
	App   *app.App
}

func (o Outcome) OK() bool { return o.Err == nil && o.Panic == nil }

func (o Outcome) String() string {
	switch {
	case o.Panic != nil:
		return fmt.Sprintf("PANIC(%v)", o.Panic)
	case o.Err != nil:
		s := o.Err.Error()
		if len(s) > 300 {
			s = s[:300] + "…"
		}
		return "ERR(" + strings.ReplaceAll(s, "\n", " ") + ")"
	}
	return "OK"
}

// RunApp starts a fresh App with the options; panics are captured.
func RunApp(ops ...app.SettingOption) (out Outcome) { return RunAppPre(nil, ops...) }

// RunAppPre is RunApp with a hook that sees the App before it runs.
func RunAppPre(pre func(a *app.App), ops ...app.SettingOption) (out Outcome) {
	a := app.NewApp()
	out.App = a
	if pre != nil {
		pre(a)
	}
	// Run is executed on a goroutine of its own so that a start-up that never returns (a lock that is never
	// released, a wait that nobody ends) is reported instead of blocking the whole check until its deadline.
	// A start takes milliseconds; StartLimit is far beyond anything load can explain.
	type res struct {
		err error
		pan any
	}
	if hungBefore.Load() {
		// an earlier start of this process never returned; its goroutines may hold locks of process-wide state
		out.Panic = Hang{"an earlier App.Run of this process is still blocked"}
		return
	}
	done := make(chan res, 1)
	go func() {
		var r res
		defer func() {
			if p := recover(); p != nil {
				r.pan = p
			}
			done <- r
		}()
		r.err = a.Run(declinerOps(ops)...)
	}()
	select {
	case r := <-done:
		out.Err, out.Panic = r.err, r.pan
	case <-time.After(StartLimit):
		hungBefore.Store(true)
		out.Panic = Hang{fmt.Sprintf("App.Run did not return within %v", StartLimit)}
	}
	return
}

var hungBefore atomic.Bool

// StartLimit bounds one App.Run (see RunAppPre).
const StartLimit = 60 * time.Second

// Hang is what Outcome.Panic holds when App.Run did not return.
type Hang struct{ What string }

func (h Hang) String() string { return "HANG: " + h.What }

// Protect runs f and returns a recovered panic value (nil when none).
func Protect(f func()) (p any) {
	defer func() {
		if r := recover(); r != nil {
			p = r
		}
	}()
	f()
	return nil
}

// ---------------------------------------------------------------------------
// replay dumps for failures that are not rapid fail files

// DumpReplay writes a JSON scenario dump under $VERIF_REPLAY_DIR and prints
// the marker line the driver looks for. Returns the path.
func DumpReplay(name string, v any) string {
	dir := os.Getenv("VERIF_REPLAY_DIR")
	if dir == "" {
		dir = os.TempDir()
	}
	_ = os.MkdirAll(dir, 0o755)
	p := filepath.Join(dir, name+".json")
	b, err := json.MarshalIndent(v, "", " ")
	if err != nil {
		b = []byte(fmt.Sprintf("%q", fmt.Sprintf("%+v", v)))
	}
	_ = os.WriteFile(p, b, 0o644)
	fmt.Printf("REPLAYFILE %s\n", p)
	return p
}

// Seed returns VERIF_SEED (remapped so it is never 0).
func Seed() uint64 {
	var s uint64
	fmt.Sscan(os.Getenv("VERIF_SEED"), &s)
	if s == 0 {
		s = 20240917
	}
	return s
}

// Tier returns "quick" or "thorough".
func Tier() string {
	if os.Getenv("VERIF_TIER") == "thorough" {
		return "thorough"
	}
	return "quick"
}

// Shard returns (index, count) for sharded exhaustive enumerations.
func Shard() (int, int) {
	var i, n int
	fmt.Sscan(os.Getenv("VERIF_SHARD"), &i)
	fmt.Sscan(os.Getenv("VERIF_SHARDS"), &n)
	if n <= 0 {
		n = 1
	}
	return i, n
}
