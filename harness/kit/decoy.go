package kit

import (
	"fmt"
	"reflect"
	"strings"

	"pgregory.net/rapid"
)

// NoSuchComponent is never registered anywhere: optional points of this type stay empty.
type NoSuchComponent struct{ _ int }

// Decoys are harmless fields of other tag kinds placed in front of and behind the fields a test is about:
// literal and expression values, optional points that resolve to nothing (absent key, absent prefix, no
// candidate, a wire / func tag on a type that cannot be injected), untagged and foreign-tagged fields.
// The fields under test must be processed exactly as without them, and every decoy must end up with the
// value stated here.
type Decoys struct {
	Before, After []Decoy
}

type Decoy struct {
	Field reflect.StructField
	Want  any
	Kind  string
}

var decoyKinds = []struct {
	kind string
	typ  reflect.Type
	tag  string
	want any
}{
	{"literal-int", reflect.TypeOf(0), `value:"7"`, 7},
	{"literal-string", reflect.TypeOf(""), `value:"decoy"`, "decoy"},
	{"optional-absent-value", reflect.TypeOf(""), `value:"${decoy.absent.k:},required=false"`, ""},
	{"optional-absent-prop", reflect.TypeOf(0), `prop:"decoy.absent.q,required=false"`, 0},
	{"optional-absent-prefix", reflect.TypeOf(map[string]string(nil)), `prefix:"decoy.absent.p,required=false"`, map[string]string(nil)},
	{"optional-wire-no-candidate", reflect.TypeOf((*NoSuchComponent)(nil)), `wire:",required=false"`, (*NoSuchComponent)(nil)},
	{"optional-wire-by-name-absent", reflect.TypeOf((*NoSuchComponent)(nil)), `wire:"decoy-no-such-name,required=false"`, (*NoSuchComponent)(nil)},
	{"optional-wire-uninjectable-type", reflect.TypeOf(0), `wire:",required=false"`, 0},
	{"optional-func-uninjectable-type", reflect.TypeOf(""), `func:"Sel,required=false"`, ""},
	{"expression", reflect.TypeOf(0), `value:"#{1+2}"`, 3},
	// an absent key with a default that happens to be a component name of the pools (n1): the default belongs to
	// this placeholder only
	{"absent-with-default-n1", reflect.TypeOf(""), `value:"${decoy.absent.d:n1}"`, "n1"},
	{"absent-prop-with-default", reflect.TypeOf(0), `prop:"decoy.absent.e:11"`, 11},
	{"untagged", reflect.TypeOf(""), ``, ""},
	{"foreign-tag", reflect.TypeOf(""), `json:"x" custom:"y,required=false"`, ""},
}

// DecoyKind describes one kind of decoy field (for harnesses that build their structs themselves).
type DecoyKind struct {
	Kind string
	Type reflect.Type
	Tag  string
	Want any
}

func DecoyKinds() []DecoyKind {
	var out []DecoyKind
	for _, k := range decoyKinds {
		out = append(out, DecoyKind{k.kind, k.typ, k.tag, k.want})
	}
	return out
}

// DrawDecoys draws 0-2 decoys for each side (about half of the draws have none on a side).
func DrawDecoys(t *rapid.T) *Decoys {
	d := &Decoys{}
	n := 0
	draw := func(label string) []Decoy {
		var out []Decoy
		for i := rapid.SampledFrom([]int{0, 0, 1, 1, 2}).Draw(t, label); i > 0; i-- {
			k := rapid.IntRange(0, len(decoyKinds)-1).Draw(t, label+"kind")
			dk := decoyKinds[k]
			out = append(out, Decoy{Field: reflect.StructField{Name: fmt.Sprintf("Dcy%d", n), Type: dk.typ, Tag: reflect.StructTag(dk.tag)}, Want: dk.want, Kind: dk.kind})
			n++
		}
		return out
	}
	d.Before = draw("decoysbefore")
	d.After = draw("decoysafter")
	return d
}

// Around returns the fields under test with the decoys placed around them.
func (d *Decoys) Around(fields ...reflect.StructField) []reflect.StructField {
	var out []reflect.StructField
	for _, x := range d.Before {
		out = append(out, x.Field)
	}
	out = append(out, fields...)
	for _, x := range d.After {
		out = append(out, x.Field)
	}
	return out
}

// Lead is the number of decoys in front (the index of the first field under test).
func (d *Decoys) Lead() int { return len(d.Before) }

// Check verifies the decoys' own values on a started component (struct or pointer to it).
func (d *Decoys) Check(obj reflect.Value) error {
	for obj.Kind() == reflect.Pointer {
		obj = obj.Elem()
	}
	for _, x := range append(append([]Decoy{}, d.Before...), d.After...) {
		got := obj.FieldByName(x.Field.Name).Interface()
		if !reflect.DeepEqual(got, x.Want) {
			return fmt.Errorf("neighbouring field %s (%s, tag `%s`) holds %#v, want %#v", x.Field.Name, x.Kind, x.Field.Tag, got, x.Want)
		}
	}
	return nil
}

func (d *Decoys) String() string {
	var b, a []string
	for _, x := range d.Before {
		b = append(b, x.Kind)
	}
	for _, x := range d.After {
		a = append(a, x.Kind)
	}
	if len(a)+len(b) == 0 {
		return ""
	}
	return fmt.Sprintf(" decoys[%s | %s]", strings.Join(b, ","), strings.Join(a, ","))
}

// Labels: evidence labels for the decoy placement.
func (d *Decoys) Labels() []string {
	var l []string
	if len(d.Before) > 0 {
		l = append(l, "decoy-fields-before")
	}
	if len(d.After) > 0 {
		l = append(l, "decoy-fields-after")
	}
	return l
}
