package kit

import (
	"os"

	"github.com/go-kid/ioc/app"
	"github.com/go-kid/ioc/component_definition"
)

// Decliner is a user post-processor of the commonest kind: it looks at every component right after instantiation,
// answers "nothing to populate for me" (false - what the library's embeddable default answers) and is
// priority-ordered in front of all built-in processors. A processor that declines a component skips only ITS OWN
// property step: every other processor still does its work for that component.
// With VERIF_DECLINER=1 every App started through this package carries one.
type Decliner struct{ Seen int }

func (*Decliner) Naming() string { return "aa-verif-decliner" }
func (*Decliner) Priority()      {}
func (*Decliner) Order() int     { return -1000 }
func (*Decliner) PostProcessBeforeInitialization(c any, n string) (any, error) {
	return c, nil
}
func (*Decliner) PostProcessAfterInitialization(c any, n string) (any, error) { return c, nil }
func (*Decliner) PostProcessBeforeInstantiation(m *component_definition.Meta, n string) (any, error) {
	return nil, nil
}
func (d *Decliner) PostProcessAfterInstantiation(c any, n string) (bool, error) {
	d.Seen++
	return false, nil
}
func (*Decliner) PostProcessProperties(p []*component_definition.Property, c any, n string) ([]*component_definition.Property, error) {
	return nil, nil
}
func (*Decliner) GetEarlyBeanReference(c any, n string) (any, error) { return c, nil }

func declinerOps(ops []app.SettingOption) []app.SettingOption {
	if os.Getenv("VERIF_DECLINER") != "1" {
		return ops
	}
	return append(append([]app.SettingOption(nil), ops...), app.SetComponents(&Decliner{}))
}
