package c05

import (
	"fmt"
	"reflect"
	"strings"
	"testing"

	"pgregory.net/rapid"
	"verif/harness/graph"
	"verif/harness/kit"
	"verif/harness/model"
	"verif/harness/zoo"
)

func TestMain(m *testing.M) { kit.Main(m) }

const rule = "node-family scenarios (DAGs, diamonds, cycles with tails; eager/lazy/primary/required variants; 0-3 observing post-processors, some ordered; a literal value field per node) started with drawn orders; oracle over the event log: per created component exactly one pass before* < AfterPropertiesSet < Init < after*, nothing populated after the first before-callback, dependencies that do not depend back are fully initialised before the dependant's Init, lazy components have events iff some created component holds them; non-trivial = a diamond (component held by >=2 holders), a reached lazy component, or a cycle with an acyclic tail; distinct by scenario shape + observer set; since rounds 7/8 also a vetoing before-initialization callback, initialization methods that panic, and look-alike-name lookups after the start (no callback runs again)"

type fataler interface{ Fatalf(string, ...any) }

func Decide(t fataler, s *graph.Scenario, obsOrders []int, tag string) {
	in := s.Instantiate()
	idOf := func(c any) int {
		for {
			w, isW := c.(*zoo.W)
			if !isW {
				break
			}
			c = w.Target // observers that run after the substituting processor see the substitute
		}
		v := reflect.ValueOf(c)
		if v.Kind() == reflect.Pointer {
			if id, ok := in.IDs[v.Pointer()]; ok {
				return id
			}
		}
		return -1
	}
	for i, o := range obsOrders {
		base := graph.ObsPP{Tag: fmt.Sprintf("o%d", i), Log: in.Log, IDOf: idOf, OrderV: o}
		if o == noOrder {
			p := base
			in.Extra = append(in.Extra, &p)
		} else {
			in.Extra = append(in.Extra, &graph.OrderedObsPP{ObsPP: base})
		}
	}
	// some single-valued points already hold a (foreign, unregistered) value when the start begins:
	// the container must still resolve, create and initialise their real targets first
	prefilled := 0
	if strings.Contains(tag, "+prefill") {
		for i, c := range in.Comps {
			v := reflect.ValueOf(c).Elem()
			for _, fn := range []string{"Nx", "G", "BN"} {
				f := v.FieldByName(fn)
				if f.IsValid() && f.CanSet() && (i+len(fn))%2 == 0 {
					f.Set(reflect.ValueOf(&zoo.W{TargetID: -7, When: "prefilled"}))
					prefilled++
				}
			}
		}
	}
	// some components (never the ones others may hold by pointer type) are replaced by a decorator in the
	// before-initialization callbacks; the decorator has initialization methods of its own that pass the call on
	wrappedBefore := map[int]bool{}
	if strings.Contains(tag, "+wrapbefore") {
		plan := map[string]graph.WrapPlan{}
		for i, n := range s.Nodes {
			if n.Variant != 'N' && n.Variant != 'X' && n.Variant != 'Y' && (i+len(s.Nodes))%2 == 0 {
				nm, _ := model.NameOf(in.Comps[i])
				plan[nm] = graph.WrapPlan{Before: graph.WrapNew}
				wrappedBefore[i] = true
			}
		}
		in.Extra = append(in.Extra, &graph.PlainWrapPP{Plan: plan})
	}
	// some components are "ready made": a post-processor hands the registered instance itself back before
	// instantiation, so the container neither populates nor initialises it - and applies the after-initialization
	// callbacks exactly once
	readyMade := map[int]bool{}
	if strings.Contains(tag, "+readymade") {
		plan := map[string]graph.WrapPlan{}
		for i, n := range s.Nodes {
			if n.Variant != 'X' && n.Variant != 'Y' && !wrappedBefore[i] && (i+len(s.Nodes))%3 == 1 {
				nm, _ := model.NameOf(in.Comps[i])
				plan[nm] = graph.WrapPlan{Inst: graph.WrapSame}
				readyMade[i] = true
			}
		}
		in.Extra = append(in.Extra, &graph.WrapPP{Plan: plan, IDOf: idOf})
	}
	// a before-initialization callback vetoes one eager component: (nil, error). Nothing is initialised "around" it.
	veto := -1
	if strings.Contains(tag, "+veto") {
		for i, n := range s.Nodes {
			if n.Variant != 'L' && n.Variant != 'Y' && !readyMade[i] {
				nm, _ := model.NameOf(in.Comps[i])
				in.Extra = append(in.Extra, &graph.ObsPP{Tag: "veto", Log: in.Log, IDOf: idOf, FailBefore: nm})
				veto = i
				break
			}
		}
	}
	// the Init (or AfterPropertiesSet) of one eager component panics half way: whatever becomes of the panic, the start
	// does not go on as if that component had been initialised
	panicky := -1
	if strings.Contains(tag, "+initpanic") {
		for i, n := range s.Nodes {
			if n.Variant != 'L' && n.Variant != 'Y' && !readyMade[i] && i != veto {
				if (i+len(s.Nodes))%2 == 0 {
					in.Behs[i].FailInit = zoo.FailPanic
				} else {
					in.Behs[i].FailAPS = zoo.FailPanic
				}
				panicky = i
				break
			}
		}
	}
	in.Run()
	desc := fmt.Sprintf("%s %s obs=%v", tag, s.Shape(), obsOrders)
	if _, injected := in.Out.Panic.(zoo.InjectedPanic); injected && panicky >= 0 {
		kit.Rec.Case(desc, false, "user-panic-propagated")
		return
	}
	if in.Out.Panic != nil {
		t.Fatalf("C05: start-up panicked: %v\n%s", in.Out.Panic, desc)
	}
	if panicky >= 0 && in.Out.Err == nil && (in.Behs[panicky].InitCalls > 0 || in.Behs[panicky].APSCalls > 0) {
		t.Fatalf("C05: an initialization method of eager component %d panicked, yet Run returned nil: the component is published although its initialization never completed\n%s", panicky, desc)
	}
	if veto >= 0 && in.Out.Err == nil && in.Behs[veto].InitCalls == 0 {
		t.Fatalf("C05: a before-initialization callback reported an error for eager component %d; the start succeeded all the same and the component was published without ever being initialised (its dependants' Init ran against it)\n%s", veto, desc)
	}
	if in.Out.Err != nil {
		kit.Rec.Case(desc, false, "start-failed")
		return
	}
	g := in.G
	if prefilled > 0 {
		// every populated point holds an admissible registered component (no pre-filled value survives where a target exists)
		must, _ := g.Created()
		for _, c := range g.Pop {
			if !must[c] || (c.ID >= 0 && readyMade[c.ID]) {
				continue // a lazy component nobody needed is never populated; neither is a ready-made one
			}
			for _, p := range g.Points[c] {
				if len(p.Cands) == 0 {
					continue
				}
				for _, sx := range graph.Observe(g, p) {
					if sx.Comp == nil && sx.Wrapper != nil && sx.Wrapper.Target != nil && g.Find(sx.Wrapper.Target) != nil {
						continue // the decorator of a registered component, not the pre-filled placeholder
					}
					if sx.Comp == nil {
						t.Fatalf("C05: %v still holds the pre-filled value %v although %v are admissible: the point was not populated\n%s", p, sx, p.Cands, desc)
					}
				}
			}
		}
	}
	ev := in.Log.Snapshot()
	n := len(in.Comps)
	k := len(obsOrders)
	if veto >= 0 {
		k++ // the vetoing observer observes as well (it only fails for one component)
	}
	// per component event positions
	type life struct {
		before, after []int
		aps, init     []int
		waps, winit   []int // initialization methods of the decorator that replaced the component before initialization
		firstSnap     []string
	}
	lives := make([]life, n)
	for i, e := range ev {
		if e.ID < 0 || e.ID >= n {
			continue
		}
		l := &lives[e.ID]
		switch e.Kind {
		case "before":
			if len(l.before) == 0 {
				l.firstSnap = e.Snap
			}
			l.before = append(l.before, i)
		case "after":
			l.after = append(l.after, i)
		case "aps":
			if len(l.before) == 0 {
				l.firstSnap = e.Snap
			}
			l.aps = append(l.aps, i)
		case "init":
			l.init = append(l.init, i)
		case "waps":
			l.waps = append(l.waps, i)
		case "winit":
			l.winit = append(l.winit, i)
		}
	}
	dump := func() string {
		var sb strings.Builder
		for _, e := range ev {
			sb.WriteString(e.String() + " ")
		}
		return sb.String()
	}
	// observed edges among scenario components
	holds := make([][]int, n)  // holder -> targets
	heldBy := make([][]int, n) // target -> holders
	for id := 0; id < n; id++ {
		c := in.Comp(id)
		if c == nil {
			continue
		}
		seen := map[int]bool{}
		for _, p := range g.Points[c] {
			for _, sx := range graph.Observe(g, p) {
				if sx.Comp == nil && sx.Wrapper != nil {
					sx.Comp = g.Find(sx.Wrapper.Target) // a decorator stands for the component it wraps
				}
				if sx.Comp != nil && sx.Comp.ID >= 0 && !seen[sx.Comp.ID] {
					seen[sx.Comp.ID] = true
					holds[id] = append(holds[id], sx.Comp.ID)
					heldBy[sx.Comp.ID] = append(heldBy[sx.Comp.ID], id)
				}
			}
		}
	}
	// a lookup a component performs in its Init is a dependency as well (it may close a cycle no field shows)
	byName := map[string]int{}
	for id := 0; id < n; id++ {
		if c := in.Comp(id); c != nil {
			byName[c.Name] = id
		}
	}
	for id := 0; id < n && id < len(in.Behs); id++ {
		if in.Behs[id] == nil {
			continue
		}
		for _, nm := range in.Behs[id].InitLookups {
			if tid, ok := byName[nm]; ok && tid != id {
				holds[id] = append(holds[id], tid)
				heldBy[tid] = append(heldBy[tid], id)
			}
		}
	}
	reach := make([]map[int]bool, n)
	for i := 0; i < n; i++ {
		reach[i] = map[int]bool{}
		st := []int{i}
		for len(st) > 0 {
			x := st[len(st)-1]
			st = st[:len(st)-1]
			for _, y := range holds[x] {
				if !reach[i][y] {
					reach[i][y] = true
					st = append(st, y)
				}
			}
		}
	}
	labels := []string{}
	nt := false
	// a node that is itself a post-processor is created while the processor chain is being assembled, and it
	// pulls its dependencies into that phase: those components legitimately miss the observers' callbacks
	hasPPNode := false
	for _, c := range in.Comps {
		if _, ok := c.(interface {
			PostProcessBeforeInitialization(any, string) (any, error)
		}); ok {
			hasPPNode = true
			labels = append(labels, "post-processor-node")
		}
	}
	for id := 0; id < n; id++ {
		c := in.Comp(id)
		l := lives[id]
		b := in.Behs[id]
		if readyMade[id] && hasPPNode && len(l.aps) == 1 && len(l.init) == 1 {
			// created while the chain was being assembled (pulled in by a post-processor node) before the processor that
			// hands instances back had joined it: an ordinary creation, judged by the ordinary rules below
			readyMade[id] = false
		}
		if readyMade[id] {
			// Whether a ready-made component is taken as it is (what the container does today) or still initialised is
			// not for this check to decide - but nothing happens twice: at most one pass of each callback, and the
			// after-initialization callbacks are never the first AND the last thing that happens to it
			if len(l.before) > k || len(l.aps) > 1 || len(l.init) > 1 || b.InitCalls > 1 || b.APSCalls > 1 || len(l.after) > k {
				t.Fatalf("C05: %s (handed back ready made before instantiation): before %d, AfterPropertiesSet %d, Init %d, after %d callbacks for %d observing post-processors - something ran twice\n%s\nlog: %s", c.Name, len(l.before), b.APSCalls, b.InitCalls, len(l.after), k, desc, dump())
			}
			if len(l.init) == 1 {
				for _, x := range l.after {
					if x < l.init[0] {
						t.Fatalf("C05: %s (ready made): an after-initialization callback ran before Init\n%s\nlog: %s", c.Name, desc, dump())
					}
				}
			}
			labels = append(labels, "ready-made-before-instantiation")
			continue
		}
		created := len(l.init) > 0 || len(l.aps) > 0 || len(l.before) > 0
		if !c.Lazy && !created {
			t.Fatalf("C05: eager component %s was never initialised\n%s\nlog: %s", c.Name, desc, dump())
		}
		if c.Lazy {
			needed := false
			for _, h := range heldBy[id] {
				hl := lives[h]
				if len(hl.init) > 0 {
					needed = true
				}
			}
			if created && !needed {
				t.Fatalf("C05: lazy component %s was initialised although no created component holds it\n%s\nlog: %s", c.Name, desc, dump())
			}
			if !created && needed {
				t.Fatalf("C05: lazy component %s is held by a created component but never went through its lifecycle\n%s\nlog: %s", c.Name, desc, dump())
			}
			if created {
				labels = append(labels, "lazy-reached")
				nt = true
			} else {
				labels = append(labels, "lazy-untouched")
			}
		}
		if !created {
			if b.InitCalls != 0 || b.APSCalls != 0 {
				t.Fatalf("C05: %s has callbacks without events", c.Name)
			}
			continue
		}
		if len(l.aps) != 1 || len(l.init) != 1 || b.APSCalls != 1 || b.InitCalls != 1 {
			t.Fatalf("C05: %s: AfterPropertiesSet ran %d times, Init %d times (exactly once each expected)\n%s\nlog: %s", c.Name, b.APSCalls, b.InitCalls, desc, dump())
		}
		if !hasPPNode && (len(l.before) != k || len(l.after) != k) {
			t.Fatalf("C05: %s: %d before- and %d after-initialization callbacks for %d observing post-processors\n%s\nlog: %s", c.Name, len(l.before), len(l.after), k, desc, dump())
		}
		for _, x := range l.before {
			if x > l.aps[0] {
				t.Fatalf("C05: %s: a before-initialization callback ran after AfterPropertiesSet\n%s\nlog: %s", c.Name, desc, dump())
			}
		}
		if l.aps[0] > l.init[0] {
			t.Fatalf("C05: %s: Init ran before AfterPropertiesSet\n%s\nlog: %s", c.Name, desc, dump())
		}
		if wrappedBefore[id] && hasPPNode && len(l.waps) == 0 && len(l.winit) == 0 {
			// created while the processor chain was still being assembled (pulled in by a node that is itself a
			// post-processor), before the substituting processor had joined it: legitimately not replaced
			labels = append(labels, "created-before-the-substituting-processor")
		} else if wrappedBefore[id] {
			// what leaves the before-initialization callbacks is what gets initialised: the decorator's own methods run,
			// exactly once, each right before it passes the call on
			if len(l.waps) != 1 || len(l.winit) != 1 {
				t.Fatalf("C05: %s was replaced by a decorator before initialization: the decorator's AfterPropertiesSet ran %d times, its Init %d times (exactly once each expected)\n%s\nlog: %s", c.Name, len(l.waps), len(l.winit), desc, dump())
			}
			if !(l.waps[0] < l.aps[0] && l.aps[0] < l.winit[0] && l.winit[0] < l.init[0]) {
				t.Fatalf("C05: %s: decorator and component initialization methods out of order\n%s\nlog: %s", c.Name, desc, dump())
			}
			for _, x := range l.before {
				if x > l.waps[0] {
					t.Fatalf("C05: %s: a before-initialization callback ran after the decorator's AfterPropertiesSet\n%s\nlog: %s", c.Name, desc, dump())
				}
			}
			labels = append(labels, "replaced-before-initialization")
		} else if len(l.waps) != 0 || len(l.winit) != 0 {
			t.Fatalf("C05: %s: decorator initialization methods ran although nothing replaced it\n%s\nlog: %s", c.Name, desc, dump())
		}
		for _, x := range l.after {
			if x < l.init[0] {
				t.Fatalf("C05: %s: an after-initialization callback ran before Init\n%s\nlog: %s", c.Name, desc, dump())
			}
		}
		// populated before the first callback: nothing that is set at the end was unset then
		final := zoo.Snap(in.Comps[id])
		have := map[string]bool{}
		for _, f := range l.firstSnap {
			have[f] = true
		}
		for _, f := range final {
			if !have[f] {
				t.Fatalf("C05: %s: field %s was populated only after the first initialization callback (snapshot then: %v, final: %v)\n%s", c.Name, f, l.firstSnap, final, desc)
			}
		}
		// ... and everything the model says is satisfiable was in fact populated by then
		for _, p := range g.Points[c] {
			if len(p.Cands) > 0 && !have[p.Field.Name] {
				t.Fatalf("C05: %s: injection point %s has admissible targets %v but was not populated when the initialization callbacks ran (snapshot %v)\n%s", c.Name, p.Field.Name, p.Cands, l.firstSnap, desc)
			}
		}
		if !have["V"] {
			t.Fatalf("C05: %s: configuration value field V not set before initialization callbacks (snapshot %v)\n%s", c.Name, l.firstSnap, desc)
		}
		// dependencies first
		lastOf := func(y int) int {
			ly := lives[y]
			m := -1
			for _, arr := range [][]int{ly.before, ly.aps, ly.init, ly.after} {
				for _, x := range arr {
					if x > m {
						m = x
					}
				}
			}
			return m
		}
		for _, y := range holds[id] {
			if reach[y][id] || readyMade[y] {
				continue // y depends back on id / y is taken as it is, it has no initialization to finish
			}
			if len(lives[y].init) == 0 {
				t.Fatalf("C05: %s holds %s which never ran Init\n%s\nlog: %s", c.Name, in.Comp(y).Name, desc, dump())
			}
			if lastOf(y) > l.init[0] {
				t.Fatalf("C05: Init of %s ran before its dependency %s (which does not depend back on it) finished initialization\n%s\nlog: %s", c.Name, in.Comp(y).Name, desc, dump())
			}
			labels = append(labels, "dependency-first-checked")
		}
		if len(heldBy[id]) >= 2 {
			nt = true
			labels = append(labels, "diamond")
		}
		if reach[id][id] {
			for _, y := range holds[id] {
				if !reach[y][id] {
					nt = true
					labels = append(labels, "cycle-with-tail")
				}
			}
		}
	}
	// lookups under names that only resemble registered ones create nothing: no callback runs a second time
	if err := graph.VariantLookups(in); err != nil {
		t.Fatalf("C05: %v\n%s", err, desc)
	}
	kit.Rec.Case(desc, nt, dedup(labels)...)
}

const noOrder = -1 << 40

func dedup(xs []string) []string {
	m := map[string]bool{}
	var out []string
	for _, x := range xs {
		if !m[x] {
			m[x] = true
			out = append(out, x)
		}
	}
	return out
}

func genObs(t *rapid.T) []int {
	k := rapid.IntRange(0, 3).Draw(t, "nobs")
	var o []int
	for i := 0; i < k; i++ {
		if rapid.Bool().Draw(t, "ordered") {
			o = append(o, rapid.SampledFrom([]int{-5, 0, 1, 3, 5, 100}).Draw(t, "order"))
		} else {
			o = append(o, noOrder)
		}
	}
	return o
}

func TestLifecycle(t *testing.T) {
	kit.Rec.Rule(rule)
	rapid.Check(t, func(t *rapid.T) {
		s := graph.Gen(t, graph.GenOpts{MinNodes: 2, MaxNodes: 6, Variants: "NNLLPEXYUH", Aliases: true, Lookups: true})
		tag := "rich"
		if rapid.IntRange(0, 3).Draw(t, "prefill") == 0 {
			tag += "+prefill"
		}
		if rapid.IntRange(0, 2).Draw(t, "wrapbefore") == 0 {
			tag += "+wrapbefore"
		}
		// (not together with pre-filled points: what a ready-made component would have pulled in is never created, so
		// the model's "must be populated" set does not apply)
		if !strings.Contains(tag, "+prefill") && rapid.IntRange(0, 3).Draw(t, "readymade") == 0 {
			tag += "+readymade"
		}
		if rapid.IntRange(0, 7).Draw(t, "veto") == 0 {
			tag += "+veto"
		}
		if rapid.IntRange(0, 9).Draw(t, "initpanic") == 0 {
			tag += "+initpanic"
		}
		Decide(t, s, genObs(t), tag)
	})
}

// sparse graphs: the pure family gives DAGs, diamonds and tails that the dense rich family rarely has
func TestLifecycleSparse(t *testing.T) {
	kit.Rec.Rule(rule)
	rapid.Check(t, func(t *rapid.T) {
		s := graph.Gen(t, graph.GenOpts{MinNodes: 3, MaxNodes: 6, Variants: "QQQJJMMD", Aliases: true})
		// thin the masks out
		for i := range s.Nodes {
			s.Nodes[i].Mask &= rapid.IntRange(0, 63).Draw(t, "thin")
		}
		Decide(t, s, genObs(t), "pure")
	})
}

var _ = model.NameOf
