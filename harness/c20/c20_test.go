package c20

import (
	"errors"
	"fmt"
	"github.com/go-kid/ioc/container/processors"
	"reflect"
	"runtime"
	"sort"
	"strings"
	"sync"
	"sync/atomic"
	"testing"
	"time"

	"github.com/anishathalye/porcupine"
	"github.com/go-kid/ioc/app"
	"github.com/go-kid/ioc/container"
	"github.com/go-kid/ioc/util/list"
	"github.com/go-kid/ioc/util/sync2"
	"pgregory.net/rapid"
	"verif/harness/graph"
	"verif/harness/kit"
	"verif/harness/model"
)

func TestMain(m *testing.M) { kit.Main(m) }

const rule = "(races, -race build) generated applications (node-family components, 0-3 user definition scanners each rejecting 0-3 drawn components under drawn yields, 0-4 closers some failing) are started and shut down under GOMAXPROCS 2/4/16; the oracle is the Go race detector; (atomicity) histories of Load/Store/LoadOrStore/LoadOrStoreFn/Delete on sync2.Map and Put/Exists/Remove on the concurrent sets over 2 keys - with the harness owning the schedule through the LoadOrStoreFn callback (caller 1 parked inside f while caller 2 runs complete operations) and with 3-6 free-running goroutines - are checked for linearizability against the sequential map/set model (porcupine); the whole set interface (initial elements, PutAll/RemoveAll/ExistsAny/ExistsAll/Length/ToArray/ForEach) is run one operation at a time against a plain map; non-trivial = >=2 components rejected by one scanner or a failing closer (races), >=2 overlapping operations on one key (atomicity); distinct by scenario / history; since rounds 7/8 also census scanners reading the other definitions' properties, tag texts new to the process on several components, and the sequential reads at the end of every set history; the embeddable tag scanner with default settings"

// ---------------------------------------------------------------------------------------------------
// races

type Scanner struct {
	name   string
	reject map[string]bool
	yields map[string]int
	walk   bool // fetch the definition of the scanned component (as the built-in scanners do) and read the names registered so far
	named  int64
	parts  bool // register a part (an inner component of a type nobody registered as a singleton) for every scanned component
	mu     sync.Mutex
	hits   int // written under mu by the callbacks; read WITHOUT it once Run has returned (Run joins the scanning phase)
}

func (s *Scanner) Naming() string { return s.name }
func (s *Scanner) PostProcessDefinitionRegistry(registry container.DefinitionRegistry, component any, name string) error {
	defer func() {
		s.mu.Lock()
		s.hits++
		s.mu.Unlock()
	}()
	if s.parts && !strings.Contains(name, "/part-of-") {
		// a fresh struct type per component: the registry meets these types for the first time here, on the scan goroutines
		pt := reflect.StructOf([]reflect.StructField{{Name: "PartOf" + sanitize(name), Type: reflect.TypeOf(0)}})
		registry.GetMetaOrRegister(s.name+"/part-of-"+name, reflect.New(pt).Interface())
	}
	if s.walk {
		if m := registry.GetMetaOrRegister(name, component); m.Name() != name {
			return fmt.Errorf("definition of %s is registered as %s", name, m.Name())
		}
	}
	for i := 0; i < s.yields[name]; i++ {
		runtime.Gosched()
	}
	if s.walk {
		for _, other := range registry.GetMetas() {
			if other.Name() != "" {
				atomic.AddInt64(&s.named, 1)
			}
			// a census of what has been found on the OTHER components so far (scanners run one after another, each
			// over all components in parallel: nobody writes definitions while this scanner reads them)
			atomic.AddInt64(&s.named, int64(len(other.GetAllProperties())))
		}
	}
	if s.reject[name] {
		return fmt.Errorf("%s rejects %s", s.name, name)
	}
	return nil
}

type Closer struct {
	name string
	fail bool
	n    int32
}

func (c *Closer) Naming() string { return c.name }
func (c *Closer) Close() error {
	atomic.AddInt32(&c.n, 1)
	runtime.Gosched()
	if c.fail {
		return errors.New("close failed")
	}
	return nil
}

// plainTagScan: the embeddable tag scanner with default settings (no NodeType, no handler).
type plainTagScan struct {
	processors.DefaultTagScanDefinitionRegistryPostProcessor
}

var freshTag int64

func TestRaces(t *testing.T) {
	kit.Rec.Rule(rule)
	rapid.Check(t, func(t *rapid.T) {
		s := graph.Gen(t, graph.GenOpts{MinNodes: 2, MaxNodes: 6, Variants: "NNLP", Aliases: true})
		in := s.Instantiate()
		var names []string
		for _, c := range in.Comps {
			n, _ := model.NameOf(c)
			names = append(names, n)
		}
		names = append(names, "github.com/go-kid/ioc/app/App")
		comps := append([]any{}, in.Ordered()...)
		ns := rapid.IntRange(0, 3).Draw(t, "nscanners")
		maxRej := 0
		for i := 0; i < ns; i++ {
			sc := &Scanner{name: fmt.Sprintf("scanner-%d", i), reject: map[string]bool{}, yields: map[string]int{}}
			sc.walk = rapid.Bool().Draw(t, "walk")
			sc.parts = rapid.IntRange(0, 2).Draw(t, "parts") == 0
			nr := rapid.IntRange(0, 3).Draw(t, "nreject")
			for j := 0; j < nr; j++ {
				sc.reject[rapid.SampledFrom(names).Draw(t, "reject")] = true
			}
			if len(sc.reject) > maxRej {
				maxRej = len(sc.reject)
			}
			for _, n := range names {
				sc.yields[n] = rapid.IntRange(0, 10).Draw(t, "yield")
			}
			comps = append(comps, sc)
		}
		// now and then a user scanner built on the library's embeddable scanner with nothing but a tag configured
		if rapid.IntRange(0, 2).Draw(t, "defaultscanner") == 0 {
			comps = append(comps, &plainTagScan{processors.DefaultTagScanDefinitionRegistryPostProcessor{Tag: "c20tag"}})
		}
		// a few components that only carry configuration points (value / prop / prefix tags of every flavour): the tag
		// scanners visit them in parallel with everything else
		// ... all of them with one more point whose tag TEXT (value and arguments) no component of this process has
		// carried before
		fresh := atomic.AddInt64(&freshTag, 1)
		for i := rapid.IntRange(0, 4).Draw(t, "ncfgcomps"); i > 0; i-- {
			var fs []reflect.StructField
			fs = append(fs, reflect.StructField{Name: "Fresh", Type: reflect.TypeOf(""), Tag: reflect.StructTag(fmt.Sprintf(`value:"lit%d,note=n%d x"`, fresh, fresh))},
				reflect.StructField{Name: "Fresh2", Type: reflect.TypeOf(""), Tag: reflect.StructTag(fmt.Sprintf(`value:"${c20.absent.k%d:d},note=n%d"`, fresh, fresh))})
			for j := 0; j < 6; j++ {
				k := rapid.SampledFrom(kit.DecoyKinds()).Draw(t, "cfgfield")
				fs = append(fs, reflect.StructField{Name: fmt.Sprintf("C%d", j), Type: k.Type, Tag: reflect.StructTag(k.Tag)})
			}
			fs = append(fs, reflect.StructField{Name: fmt.Sprintf("Mark%d", i), Type: reflect.TypeOf(0)})
			comps = append(comps, reflect.New(reflect.StructOf(fs)).Interface())
		}
		nc := rapid.IntRange(0, 4).Draw(t, "nclosers")
		failingClosers := 0
		var closers []*Closer
		for i := 0; i < nc; i++ {
			c := &Closer{name: fmt.Sprintf("closer-%d", i), fail: rapid.IntRange(0, 2).Draw(t, "cfail") == 0}
			if c.fail {
				failingClosers++
			}
			closers = append(closers, c)
			comps = append(comps, c)
		}
		procs := rapid.SampledFrom([]int{2, 4, 16}).Draw(t, "gomaxprocs")
		old := runtime.GOMAXPROCS(procs)
		out := kit.RunApp(app.SetComponents(comps...))
		if out.Err == nil && out.Panic == nil {
			out.App.Close()
			for _, c := range closers {
				if atomic.LoadInt32(&c.n) != 1 {
					runtime.GOMAXPROCS(old)
					t.Fatalf("C20: closer %s called %d times", c.name, c.n)
				}
			}
		}
		// Run has returned - successfully or with the scanners' rejections: the scanning phase is over, nothing of it
		// may still be running (the read below is deliberately unsynchronised)
		total := 0
		for _, c := range comps {
			if sc, ok := c.(*Scanner); ok {
				total += sc.hits
			}
		}
		for i := 0; i < 30; i++ {
			runtime.Gosched()
		}
		for _, c := range comps {
			if sc, ok := c.(*Scanner); ok {
				total -= sc.hits
			}
		}
		if total != 0 && out.Panic == nil {
			runtime.GOMAXPROCS(old)
			t.Fatalf("C20: definition scanners were still being called after App.Run had returned (%v)", out)
		}
		runtime.GOMAXPROCS(old)
		if out.Panic != nil {
			t.Fatalf("C20: panic %v", out.Panic)
		}
		desc := fmt.Sprintf("%s scanners=%d maxreject=%d closers=%d failing=%d procs=%d", s.Shape(), ns, maxRej, nc, failingClosers, procs)
		var labels []string
		if maxRej >= 2 {
			labels = append(labels, "several-components-rejected-at-once")
		}
		if failingClosers > 0 {
			labels = append(labels, "failing-closer")
		}
		kit.Rec.Case(desc, maxRej >= 2 || failingClosers > 0, labels...)
	})
}

// ---------------------------------------------------------------------------------------------------
// atomicity: sequential model of the map

type mapIn struct {
	Op  string // load store los losfn delete
	Key int
	Val int
}
type mapOut struct {
	Val    int
	Loaded bool
}

var mapModel = porcupine.Model{
	Partition: func(history []porcupine.Operation) [][]porcupine.Operation {
		m := map[int][]porcupine.Operation{}
		for _, o := range history {
			k := o.Input.(mapIn).Key
			m[k] = append(m[k], o)
		}
		var keys []int
		for k := range m {
			keys = append(keys, k)
		}
		sort.Ints(keys)
		var out [][]porcupine.Operation
		for _, k := range keys {
			out = append(out, m[k])
		}
		return out
	},
	Init: func() interface{} { return -1 }, // -1 = absent
	Step: func(state, input, output interface{}) (bool, interface{}) {
		st := state.(int)
		in := input.(mapIn)
		out := output.(mapOut)
		switch in.Op {
		case "load":
			if st == -1 {
				return !out.Loaded, st
			}
			return out.Loaded && out.Val == st, st
		case "store":
			return true, in.Val
		case "delete":
			return true, -1
		case "los", "losfn":
			if st == -1 {
				return !out.Loaded && out.Val == in.Val, in.Val
			}
			return out.Loaded && out.Val == st, st
		}
		return false, st
	},
	Equal: func(a, b interface{}) bool { return a == b },
	DescribeOperation: func(input, output interface{}) string {
		in, out := input.(mapIn), output.(mapOut)
		return fmt.Sprintf("%s(k%d,%d)->(%d,%v)", in.Op, in.Key, in.Val, out.Val, out.Loaded)
	},
}

var clock int64

func tick() int64 { return atomic.AddInt64(&clock, 1) }

type opRec struct {
	mu  sync.Mutex
	ops []porcupine.Operation
}

func (r *opRec) add(o porcupine.Operation) {
	r.mu.Lock()
	r.ops = append(r.ops, o)
	r.mu.Unlock()
}

// doMapOp executes one operation; fnHook (if non-nil) runs inside the LoadOrStoreFn callback.
func doMapOp(m *sync2.Map[int, int], in mapIn, client int, rec *opRec, fnHook func()) {
	call := tick()
	var out mapOut
	switch in.Op {
	case "load":
		out.Val, out.Loaded = m.Load(in.Key)
	case "store":
		m.Store(in.Key, in.Val)
	case "delete":
		m.Delete(in.Key)
	case "los":
		out.Val, out.Loaded = m.LoadOrStore(in.Key, in.Val)
	case "losfn":
		out.Val, out.Loaded = m.LoadOrStoreFn(in.Key, func() int {
			if fnHook != nil {
				fnHook()
			}
			return in.Val
		})
	}
	ret := tick()
	rec.add(porcupine.Operation{ClientId: client, Input: in, Call: call, Output: out, Return: ret})
}

func describe(ops []porcupine.Operation) string {
	sort.Slice(ops, func(i, j int) bool { return ops[i].Call < ops[j].Call })
	var s []string
	for _, o := range ops {
		s = append(s, fmt.Sprintf("c%d[%d..%d]%s", o.ClientId, o.Call, o.Return, mapModel.DescribeOperation(o.Input, o.Output)))
	}
	return strings.Join(s, " ")
}

var valCounter int

func genMapOp(t *rapid.T, label string) mapIn {
	valCounter++
	return mapIn{Op: rapid.SampledFrom([]string{"load", "store", "delete", "los", "losfn", "losfn"}).Draw(t, label), Key: rapid.IntRange(0, 1).Draw(t, label+"key"), Val: valCounter}
}

// rangeSeen collects what concurrent Range calls reported.
type rangeSeen struct {
	mu    sync.Mutex
	pairs [][2]int
	dups  int
}

// TestLoadOrStoreFnOwnedSchedule: caller 1 is parked inside the callback of LoadOrStoreFn while
// caller 2 runs a generated sequence of complete operations; then caller 1 resumes.
func TestLoadOrStoreFnOwnedSchedule(t *testing.T) {
	kit.Rec.Rule(rule)
	rapid.Check(t, func(t *rapid.T) {
		valCounter = 0
		m := sync2.New[int, int]()
		rec := &opRec{}
		// optional prefix
		for i := rapid.IntRange(0, 2).Draw(t, "prefix"); i > 0; i-- {
			doMapOp(m, genMapOp(t, "pre"), 0, rec, nil)
		}
		valCounter++
		a := mapIn{Op: "losfn", Key: rapid.IntRange(0, 1).Draw(t, "akey"), Val: valCounter}
		nb := rapid.IntRange(1, 4).Draw(t, "nb")
		bops := make([]mapIn, nb)
		for i := range bops {
			bops[i] = genMapOp(t, "b")
		}
		entered, resume, aDone := make(chan struct{}), make(chan struct{}), make(chan struct{})
		var once sync.Once
		go func() {
			defer close(aDone)
			doMapOp(m, a, 1, rec, func() {
				once.Do(func() { close(entered) })
				<-resume
			})
		}()
		parked := false
		select {
		case <-entered:
			parked = true
		case <-aDone:
		}
		bDone := make(chan struct{})
		go func() {
			defer close(bDone)
			for _, in := range bops {
				doMapOp(m, in, 2, rec, nil)
			}
		}()
		// caller 2 may legitimately block on caller 1 (an implementation that locks): then let caller 1 go on
		select {
		case <-bDone:
		case <-time.After(100 * time.Millisecond):
		}
		close(resume)
		<-aDone
		<-bDone
		// a final read of both keys pins the resulting state
		doMapOp(m, mapIn{Op: "load", Key: 0}, 0, rec, nil)
		doMapOp(m, mapIn{Op: "load", Key: 1}, 0, rec, nil)
		ops := rec.ops
		if res := porcupine.CheckOperations(mapModel, ops); !res {
			t.Fatalf("C20: history of sync2.Map is not linearizable (a load-or-store let two callers both win, or a result is impossible in any sequential order):\n%s", describe(ops))
		}
		overlap := false
		for _, b := range bops {
			if parked && b.Key == a.Key {
				overlap = true
			}
		}
		lab := "parked"
		if !parked {
			lab = "key-present-no-callback"
		}
		kit.Rec.Case(describe(ops), overlap, lab)
	})
}

// TestMapFreeSchedule: several goroutines, generated programs, free scheduling.
func TestMapFreeSchedule(t *testing.T) {
	kit.Rec.Rule(rule)
	rapid.Check(t, func(t *rapid.T) {
		valCounter = 0
		m := sync2.New[int, int]()
		rec := &opRec{}
		ng := rapid.IntRange(3, 6).Draw(t, "goroutines")
		progs := make([][]mapIn, ng)
		yields := make([][]int, ng)
		for g := range progs {
			n := rapid.IntRange(1, 5).Draw(t, "len")
			for i := 0; i < n; i++ {
				progs[g] = append(progs[g], genMapOp(t, "op"))
				yields[g] = append(yields[g], rapid.IntRange(0, 3).Draw(t, "yield"))
			}
		}
		var wg sync.WaitGroup
		start := make(chan struct{})
		rs := &rangeSeen{}
		rangers := rapid.IntRange(0, 2).Draw(t, "rangers")
		for r := 0; r < rangers; r++ {
			wg.Add(1)
			go func() {
				defer wg.Done()
				<-start
				for k := 0; k < 3; k++ {
					seen := map[int]int{}
					m.Range(func(key, v int) bool {
						runtime.Gosched()
						seen[key]++
						rs.mu.Lock()
						rs.pairs = append(rs.pairs, [2]int{key, v})
						rs.mu.Unlock()
						return true
					})
					for _, n := range seen {
						if n > 1 {
							rs.mu.Lock()
							rs.dups++
							rs.mu.Unlock()
						}
					}
				}
			}()
		}
		for g := range progs {
			wg.Add(1)
			go func(g int) {
				defer wg.Done()
				<-start
				for i, in := range progs[g] {
					for y := 0; y < yields[g][i]; y++ {
						runtime.Gosched()
					}
					var hook func()
					if in.Op == "losfn" {
						hook = func() { runtime.Gosched() }
					}
					doMapOp(m, in, g, rec, hook)
				}
			}(g)
		}
		close(start)
		waitAll(t, &wg, rec)
		ops := rec.ops
		res := porcupine.CheckOperations(mapModel, ops)
		if !res {
			t.Fatalf("C20: concurrent history of sync2.Map is not linearizable:\n%s", describe(ops))
		}
		if rs.dups > 0 {
			t.Fatalf("C20: a concurrent Range visited one key twice:\n%s", describe(ops))
		}
		// Range: every key at most once, only values some operation stored under that key
		stored := map[[2]int]bool{}
		for _, o := range ops {
			in := o.Input.(mapIn)
			if in.Op == "store" || in.Op == "los" || in.Op == "losfn" {
				stored[[2]int{in.Key, in.Val}] = true
			}
		}
		for _, pr := range rs.pairs {
			if !stored[[2]int{pr[0], pr[1]}] {
				t.Fatalf("C20: a Range running concurrently with the operations reported key %d = %d, which no operation ever stored:\n%s", pr[0], pr[1], describe(ops))
			}
		}
		seen := map[int]int{}
		m.Range(func(k, v int) bool {
			seen[k]++
			if !stored[[2]int{k, v}] {
				t.Fatalf("C20: Range reports key %d = %d which no operation stored", k, v)
			}
			return true
		})
		for k, n := range seen {
			if n > 1 {
				t.Fatalf("C20: Range visited key %d %d times", k, n)
			}
		}
		// the final state agrees with a plain Load
		for k := 0; k <= 1; k++ {
			v, ok := m.Load(k)
			if (seen[k] == 1) != ok {
				t.Fatalf("C20: Range and Load disagree about key %d (range saw it %d times, Load ok=%v value %d)", k, seen[k], ok, v)
			}
		}
		overl := 0
		for i := range ops {
			for j := range ops {
				if i < j && ops[i].Input.(mapIn).Key == ops[j].Input.(mapIn).Key && ops[i].Call < ops[j].Return && ops[j].Call < ops[i].Return {
					overl++
				}
			}
		}
		kit.Rec.Case(describe(ops), overl >= 1, "free-schedule")
	})
}

// ---- sets ---------------------------------------------------------------------------------------

type setIn struct {
	Op  string // put exists remove
	Key string
}

var setModel = porcupine.Model{
	Partition: func(history []porcupine.Operation) [][]porcupine.Operation {
		m := map[string][]porcupine.Operation{}
		for _, o := range history {
			m[o.Input.(setIn).Key] = append(m[o.Input.(setIn).Key], o)
		}
		var out [][]porcupine.Operation
		for _, k := range []string{"x", "y"} {
			if len(m[k]) > 0 {
				out = append(out, m[k])
			}
		}
		return out
	},
	Init: func() interface{} { return false },
	Step: func(state, input, output interface{}) (bool, interface{}) {
		st := state.(bool)
		switch input.(setIn).Op {
		case "put":
			return true, true
		case "remove":
			return true, false
		default:
			return output.(bool) == st, st
		}
	},
	Equal: func(a, b interface{}) bool { return a == b },
	DescribeOperation: func(input, output interface{}) string {
		return fmt.Sprintf("%s(%s)->%v", input.(setIn).Op, input.(setIn).Key, output)
	},
}

type stringSet interface {
	Put(string)
	Exists(string) bool
	Remove(string)
}

func TestSetsFreeSchedule(t *testing.T) {
	kit.Rec.Rule(rule)
	rapid.Check(t, func(t *rapid.T) {
		var s stringSet
		which := rapid.SampledFrom([]string{"ConcurrentSets", "GenericConcurrentSets"}).Draw(t, "impl")
		if which == "ConcurrentSets" {
			s = list.NewConcurrentSets()
		} else {
			s = list.NewGenericConcurrentSets[string]()
		}
		rec := &opRec{}
		ng := rapid.IntRange(3, 6).Draw(t, "goroutines")
		progs := make([][]setIn, ng)
		for g := range progs {
			n := rapid.IntRange(1, 5).Draw(t, "len")
			for i := 0; i < n; i++ {
				progs[g] = append(progs[g], setIn{Op: rapid.SampledFrom([]string{"put", "exists", "remove", "exists"}).Draw(t, "op"), Key: rapid.SampledFrom([]string{"x", "y"}).Draw(t, "key")})
			}
		}
		var wg sync.WaitGroup
		start := make(chan struct{})
		for g := range progs {
			wg.Add(1)
			go func(g int) {
				defer wg.Done()
				<-start
				for _, in := range progs[g] {
					call := tick()
					var out bool
					switch in.Op {
					case "put":
						s.Put(in.Key)
					case "remove":
						s.Remove(in.Key)
					default:
						out = s.Exists(in.Key)
					}
					rec.add(porcupine.Operation{ClientId: g, Input: in, Call: call, Output: out, Return: tick()})
				}
			}(g)
		}
		close(start)
		waitAll(t, &wg, rec)
		// once everything has returned, the set is read sequentially: the final answers belong to the history too
		for _, k := range []string{"x", "y"} {
			call := tick()
			out := s.Exists(k)
			rec.add(porcupine.Operation{ClientId: ng, Input: setIn{Op: "exists", Key: k}, Call: call, Output: out, Return: tick()})
		}
		if !porcupine.CheckOperations(setModel, rec.ops) {
			t.Fatalf("C20: concurrent history of %s (with the sequential reads at its end) is not linearizable: %v", which, rec.ops)
		}
		var d []string
		for _, o := range rec.ops {
			d = append(d, fmt.Sprintf("c%d:%s", o.ClientId, setModel.DescribeOperation(o.Input, o.Output)))
		}
		kit.Rec.Case(which+" "+strings.Join(d, " "), len(rec.ops) >= 4, "sets/"+which)
	})
}

// TestRealLoggerCloseErrors runs in its own process with the library's own logger (VERIF_REAL_LOGGER=1):
// the very first error-level lines of the process are written by several failing closers at once, from
// the goroutines of App.Close. Whatever the logger does lazily on first use happens concurrently here.
func TestRealLoggerCloseErrors(t *testing.T) {
	kit.Rec.Rule(rule)
	rapid.Check(t, func(t *rapid.T) {
		n := rapid.IntRange(2, 8).Draw(t, "n")
		var comps []any
		for i := 0; i < n; i++ {
			comps = append(comps, &Closer{name: fmt.Sprintf("closer-%d", i), fail: true})
		}
		procs := rapid.SampledFrom([]int{2, 4, 16}).Draw(t, "gomaxprocs")
		old := runtime.GOMAXPROCS(procs)
		defer runtime.GOMAXPROCS(old)
		out := kit.RunApp(app.SetComponents(comps...))
		if !out.OK() {
			t.Fatalf("C20: start failed: %v", out)
		}
		out.App.Close()
		kit.Rec.Case(fmt.Sprintf("real-logger %d failing closers procs=%d", n, procs), true, "real-logger-close-errors")
	})
}

// TestCloseJoinsItsGoroutines runs with a recording logger (VERIF_REC_LOGGER=1; its appends are mutex-guarded, the
// test's read after App.Close is deliberately NOT): App.Close is the join point of the parallel closing phase, so
// everything the closer goroutines do - including reporting their failures - happens-before its return. The race
// detector reports any goroutine of that phase that is still running afterwards.
func TestCloseJoinsItsGoroutines(t *testing.T) {
	kit.Rec.Rule(rule)
	if kit.Rec0 == nil {
		t.Skip("needs VERIF_REC_LOGGER=1")
	}
	total := 0
	rapid.Check(t, func(t *rapid.T) {
		n := rapid.IntRange(1, 8).Draw(t, "n")
		var comps []any
		failing := 0
		for i := 0; i < n; i++ {
			f := rapid.IntRange(0, 3).Draw(t, "fail") > 0
			if f {
				failing++
			}
			comps = append(comps, &Closer{name: fmt.Sprintf("closer-%d", i), fail: f})
		}
		procs := rapid.SampledFrom([]int{2, 4, 16}).Draw(t, "gomaxprocs")
		old := runtime.GOMAXPROCS(procs)
		defer runtime.GOMAXPROCS(old)
		out := kit.RunApp(app.SetComponents(comps...))
		if !out.OK() {
			t.Fatalf("C20: start failed: %v", out)
		}
		out.App.Close()
		total += kit.Rec0.UnsyncLen() // unsynchronised on purpose
		for i := 0; i < 50; i++ {
			runtime.Gosched()
		}
		total += kit.Rec0.UnsyncLen()
		kit.Rec.Case(fmt.Sprintf("close-join %d closers %d failing procs=%d", n, failing, procs), failing > 0, "close-is-join-point")
	})
	_ = total
}

// TestSetsSequentialModel: the whole set interface (constructor with initial elements, Put/PutAll,
// Remove/RemoveAll, Exists/ExistsAny/ExistsAll, Length, ToArray, ForEach) of both concurrent set
// implementations against a plain map, one operation at a time (the sequential histories are the base case
// of "every concurrent history is equivalent to some sequential one").
func TestSetsSequentialModel(t *testing.T) {
	kit.Rec.Rule(rule)
	keyGen := rapid.SampledFrom([]string{"a", "b", "c", "d"})
	keysGen := rapid.SliceOfN(keyGen, 0, 3)
	rapid.Check(t, func(t *rapid.T) {
		which := rapid.SampledFrom([]string{"ConcurrentSets", "GenericConcurrentSets"}).Draw(t, "impl")
		init := keysGen.Draw(t, "initial")
		var s list.Set
		if which == "ConcurrentSets" {
			s = list.NewConcurrentSets(init...)
		} else {
			s = list.NewGenericConcurrentSets[string](init...)
		}
		model := map[string]bool{}
		for _, k := range init {
			model[k] = true
		}
		var hist []string
		check := func() {
			arr := s.ToArray()
			sort.Strings(arr)
			var want []string
			for k := range model {
				want = append(want, k)
			}
			sort.Strings(want)
			if fmt.Sprint(arr) != fmt.Sprint(want) {
				t.Fatalf("C20: %s after %v: ToArray gives %v, the set is %v", which, hist, arr, want)
			}
			if s.Length() != len(model) {
				t.Fatalf("C20: %s after %v: Length gives %d, the set has %d elements", which, hist, s.Length(), len(model))
			}
			var seen []string
			s.ForEach(func(k string) { seen = append(seen, k) })
			sort.Strings(seen)
			if fmt.Sprint(seen) != fmt.Sprint(want) {
				t.Fatalf("C20: %s after %v: ForEach visits %v, the set is %v", which, hist, seen, want)
			}
		}
		check()
		t.Repeat(map[string]func(*rapid.T){
			"put": func(t *rapid.T) {
				k := keyGen.Draw(t, "k")
				s.Put(k)
				model[k] = true
				hist = append(hist, "put "+k)
			},
			"putall": func(t *rapid.T) {
				ks := keysGen.Draw(t, "ks")
				s.PutAll(ks...)
				for _, k := range ks {
					model[k] = true
				}
				hist = append(hist, fmt.Sprint("putall ", ks))
			},
			"remove": func(t *rapid.T) {
				k := keyGen.Draw(t, "k")
				s.Remove(k)
				delete(model, k)
				hist = append(hist, "remove "+k)
			},
			"removeall": func(t *rapid.T) {
				ks := keysGen.Draw(t, "ks")
				s.RemoveAll(ks...)
				for _, k := range ks {
					delete(model, k)
				}
				hist = append(hist, fmt.Sprint("removeall ", ks))
			},
			"exists": func(t *rapid.T) {
				k := keyGen.Draw(t, "k")
				if got := s.Exists(k); got != model[k] {
					t.Fatalf("C20: %s after %v: Exists(%s)=%v, want %v", which, hist, k, got, model[k])
				}
			},
			"existsany": func(t *rapid.T) {
				ks := keysGen.Draw(t, "ks")
				want := false
				for _, k := range ks {
					want = want || model[k]
				}
				if got := s.ExistsAny(ks...); got != want {
					t.Fatalf("C20: %s after %v: ExistsAny(%v)=%v, want %v", which, hist, ks, got, want)
				}
			},
			"existsall": func(t *rapid.T) {
				ks := keysGen.Draw(t, "ks")
				want := true
				for _, k := range ks {
					want = want && model[k]
				}
				if got := s.ExistsAll(ks...); got != want {
					t.Fatalf("C20: %s after %v: ExistsAll(%v)=%v, want %v", which, hist, ks, got, want)
				}
			},
			"": func(t *rapid.T) { check() },
		})
		kit.Rec.Case(which+fmt.Sprint(" init ", init, " ", hist), len(hist) >= 3, "sets-sequential/"+which)
	})
}

// waitAll waits for the free-running goroutines of one case. Their operations take microseconds; if they have not
// all returned after hangLimit, some operation is blocked for good (lost wake-up, copied lock): a history in which an
// operation never completes has no sequential equivalent. The operations that did complete are reported.
const hangLimit = 45 * time.Second

var hung bool

func waitAll(t *rapid.T, wg *sync.WaitGroup, rec *opRec) {
	if hung {
		t.Fatalf("C20: an earlier case of this process left blocked operations behind")
	}
	done := make(chan struct{})
	go func() { wg.Wait(); close(done) }()
	select {
	case <-done:
	case <-time.After(hangLimit):
		hung = true
		rec.mu.Lock()
		n := len(rec.ops)
		var ds []string
		for _, o := range rec.ops {
			ds = append(ds, fmt.Sprintf("c%d[%d..%d]%v->%v", o.ClientId, o.Call, o.Return, o.Input, o.Output))
		}
		d := strings.Join(ds, " ")
		rec.mu.Unlock()
		kit.DumpReplay("c20-blocked-operation", map[string]any{"completed_operations": d})
		t.Fatalf("C20: concurrent operations on the utility did not all return within %v (%d completed: %s): an operation is blocked for good", hangLimit, n, d)
	}
}

func sanitize(n string) string {
	var sb strings.Builder
	for _, r := range n {
		if (r >= 'a' && r <= 'z') || (r >= 'A' && r <= 'Z') || (r >= '0' && r <= '9') {
			sb.WriteRune(r)
		} else {
			sb.WriteByte('_')
		}
	}
	return sb.String()
}
