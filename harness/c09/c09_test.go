package c09

import (
	"errors"
	"fmt"
	"reflect"
	"sort"
	"strings"
	"sync"
	"testing"

	"github.com/go-kid/ioc/app"
	"github.com/go-kid/ioc/configure"
	"github.com/go-kid/ioc/container"
	"pgregory.net/rapid"
	"verif/harness/graph"
	"verif/harness/kit"
	"verif/harness/model"
	"verif/harness/zoo"
)

func TestMain(m *testing.M) { kit.Main(m) }

const rule = "base scenarios that the model says start (node family with required variants placed where satisfiable, 0-2 components with required value/prefix configuration, 0-2 observing post-processors, 1-2 loaders, 1-3 runners) x fault plans; fault sites are ENUMERATED from the base: every Init / AfterPropertiesSet, every post-processor callback (before, after, after-instantiation, early-reference) on every component, every loader, every runner, every required component point made unsatisfiable, every required configuration key removed; quick: every single site of each base, thorough: also pairs; oracle: a fault that fired before the runner phase => Run returns an error, no panic, no runner invoked; nothing fired => Run succeeds, runners ran once, unsatisfied optional points are zero; non-trivial = a fault that fired in a callback of a component that is not the first one created, or a pair; distinct by base shape + fault plan; since rounds 7/8 also a scanner rejecting every component at once, same-named points in two embedded helper structs, a post-processor component with an unsatisfiable required point, an optional array point, and an observer that rejects substitutes only"

// ---- components with configuration points -------------------------------------

type Pre struct {
	X int    `yaml:"x"`
	Y string `yaml:"y"`
}

type CfgA struct {
	zoo.Core
	Opt0   map[string]any `prefix:"c09.a.none0,required=false"` // optional and absent, declared BEFORE the required ones
	OptV0  string         `value:"${c09.a.none1},required=false"`
	Host   string         `value:"${c09.a.host}"`
	Port   int            `value:"${c09.a.port}"`
	Opt    string         `value:"${c09.a.opt},required=false"`
	Pre    Pre            `prefix:"c09.a.pre"`
	OptPre map[string]any `prefix:"c09.a.optpre,required=false"`
	OptW   zoo.IC         `wire:",required=false"`
	OptArr [2]zoo.INode   `wire:",required=false"` // arrays are never filled: stays zero, never a failure
}

type CfgB struct {
	zoo.Core
	Name  string `prop:"c09.b.name"`
	Limit int    `value:"${c09.b.limit:7}"`
	OptP  *Pre   `prefix:"c09.b.none,required=false"`
}

var cfgKeys = map[string]string{ // required key -> owner kind
	"c09.a.host": "A", "c09.a.port": "A", "c09.a.pre": "A", "c09.b.name": "B", "c09.mix.a": "M", "c09.mix.b": "M",
}

// TwoMix: two embedded helper structs whose fields have the SAME Go names (and the same tags): four distinct required
// points - two components of different types, two configuration keys.
type MixDbConn struct{ zoo.Core }
type MixCacheConn struct{ zoo.Core }
type MixDB struct {
	Conn *MixDbConn `wire:""`
	Key  string     `prop:"c09.mix.a"`
}
type MixCache struct {
	Conn *MixCacheConn `wire:""`
	Key  string        `prop:"c09.mix.b"`
}
type TwoMix struct {
	zoo.Core
	MixDB
	MixCache
}

func ownerOn(b *Base, owner string) bool {
	return (owner == "A" && b.CfgA) || (owner == "B" && b.CfgB) || (owner == "M" && b.Mix)
}

func yamlFor(missing map[string]bool) []byte {
	var sb strings.Builder
	sb.WriteString("c09:\n  a:\n")
	if !missing["c09.a.host"] {
		sb.WriteString("    host: example.org\n")
	}
	if !missing["c09.a.port"] {
		sb.WriteString("    port: 8080\n")
	}
	if !missing["c09.a.pre"] {
		sb.WriteString("    pre:\n      x: 3\n      y: why\n")
	}
	sb.WriteString("    other: 1\n  b:\n")
	if !missing["c09.b.name"] {
		sb.WriteString("    name: bee\n")
	}
	sb.WriteString("    other: 2\n  mix:\n    other: 3\n")
	if !missing["c09.mix.a"] {
		sb.WriteString("    a: key-a\n")
	}
	if !missing["c09.mix.b"] {
		sb.WriteString("    b: key-b\n")
	}
	return []byte(sb.String())
}

// QHolder / QDep: a required qualified point with exactly ONE type-compatible candidate.
type QDep struct{ zoo.Core }
type QHolder struct {
	zoo.Core
	Dep *QDep `wire:",qualifier=red"`
}

// required component points on types nothing can be injected into: each of them must fail the start
type BadStruct struct {
	zoo.Core
	X Pre `wire:""` // the forgotten *: a struct value
}
type BadMap struct {
	zoo.Core
	X map[string]zoo.INode `wire:""`
}
type BadSliceVal struct {
	zoo.Core
	X []Pre `func:"Sel"`
}
type BadArray struct {
	zoo.Core
	X [2]zoo.INode `wire:""` // a fixed-size array is no collection the container fills
}
type BadFuncArray struct {
	zoo.Core
	X [2]zoo.INode `func:"Sel"`
}

// PPHolder is a (non-lazy, pass-through) component post-processor that has a required point of its own - two roles
// on one component.
type PPHolder struct {
	zoo.Core
	Dep *QDep `wire:""`
}

func (*PPHolder) PostProcessBeforeInitialization(c any, n string) (any, error) { return c, nil }
func (*PPHolder) PostProcessAfterInitialization(c any, n string) (any, error)  { return c, nil }

type BadNamedSlice struct {
	zoo.Core
	X []zoo.INode `wire:"factory-pp"` // a name on a slice
}

// MarkerRunner / MarkerLoader carry the Priority marker without an Order method: unordered participants all the same
type MarkerRunner struct{ Runner }

func (*MarkerRunner) Priority() {}

type MarkerLoader struct{ FLoader }

func (*MarkerLoader) Priority() {}

type Runner struct{ zoo.Core }

func (r *Runner) Run() error {
	r.B.RunCalls++
	r.B.Log.Add(zoo.Event{Kind: "run", ID: r.B.ID})
	if r.B.FailRun != 0 {
		return zoo.ErrInjected
	}
	return nil
}

// FactoryPP: a user ComponentFactoryPostProcessor / DefinitionRegistryPostProcessor that can be told to fail.
type FactoryPP struct {
	zoo.Core
	failFactory bool
	rejectName  string
	rejectAll   bool // the scanner rejects every component of the start (many failures reported at the same time)
	mu          sync.Mutex
	fired       *int
}

func (f *FactoryPP) PostProcessComponentFactory(factory container.Factory) error {
	if f.failFactory {
		*f.fired++
		return errors.New("injected factory post-processor fault")
	}
	return nil
}
func (f *FactoryPP) PostProcessDefinitionRegistry(registry container.DefinitionRegistry, component any, name string) error {
	if f.rejectAll || (f.rejectName != "" && f.rejectName == name) {
		f.mu.Lock()
		*f.fired++
		f.mu.Unlock()
		return errors.New("injected scanner fault")
	}
	return nil
}

type FLoader struct {
	data  []byte
	fail  bool
	calls int
	fired *int
}

func (l *FLoader) LoadConfig() ([]byte, error) {
	l.calls++
	if l.fail {
		*l.fired++
		return nil, errors.New("injected loader fault")
	}
	return l.data, nil
}

// ---- base + faults ----------------------------------------------------------------

type Base struct {
	S        *graph.Scenario
	CfgA     bool
	CfgB     bool
	Runners  int
	Loaders  int
	Obs      int
	EmptyCfg bool
	QPair    bool
	ObsKind  int
	Mix      bool
}

func (b *Base) String() string {
	return fmt.Sprintf("%s cfgA=%v cfgB=%v runners=%d loaders=%d obs=%d qpair=%v", b.S.Shape(), b.CfgA, b.CfgB, b.Runners, b.Loaders, b.Obs, b.QPair) + fmt.Sprintf(" mix=%v", b.Mix)
}

type Site struct {
	Kind string // aps init run loader pp-before pp-after pp-inst pp-early unsat-qs unsat-nx cfg-missing
	A    int    // component / loader / pp index
	Name string // component name for pp sites, key for cfg-missing
}

func (s Site) String() string { return fmt.Sprintf("%s:%d:%s", s.Kind, s.A, s.Name) }

type built struct {
	in      *graph.Instance
	obs     []*graph.ObsPP
	loaders []*FLoader
	runners []int // ids
	cfgIDs  []int
	fired   int
	missing map[string]bool
	subst   map[string]bool // substituted before instantiation: never populated / initialised by the container
}

func build(b *Base, faults []Site) *built {
	s := *b.S
	s.Nodes = append([]graph.NodeSpec(nil), b.S.Nodes...)
	missing := map[string]bool{}
	// structural faults first
	for _, f := range faults {
		switch f.Kind {
		case "unsat-qs":
			idx := s.Nodes[f.A].Idx
			for i := range s.Nodes {
				s.Nodes[i].Mask &^= 1 << idx
			}
		case "cfg-missing":
			missing[f.Name] = true
		}
	}
	drop := -1
	for _, f := range faults {
		if f.Kind == "unsat-nx" {
			want := (s.Nodes[f.A].Idx + 1) % zoo.K
			for i := range s.Nodes {
				if s.Nodes[i].Idx == want {
					drop = i
				}
			}
		}
	}
	for _, f := range faults {
		switch f.Kind {
		case "aps":
			if f.A < len(s.Nodes) {
				s.Nodes[f.A].FailAPS = zoo.FailAlways
			}
		case "init":
			if f.A < len(s.Nodes) {
				s.Nodes[f.A].FailInit = zoo.FailAlways
			}
		}
	}
	if drop >= 0 {
		// keep ids stable for the other faults: replace the node by nothing via filtering at the end
		s.Nodes = append(append([]graph.NodeSpec(nil), s.Nodes[:drop]...), s.Nodes[drop+1:]...)
	}
	s.RegPerm = nil
	in := s.Instantiate()
	bu := &built{in: in, missing: missing, subst: map[string]bool{}}
	idOf := func(c any) int {
		v := reflect.ValueOf(c)
		if v.Kind() == reflect.Pointer {
			if id, ok := in.IDs[v.Pointer()]; ok {
				return id
			}
		}
		return -1
	}
	addExtra := func(c any, beh *zoo.Beh) int {
		id := len(in.Comps) + len(in.Extra)
		beh.ID = id
		beh.Log = in.Log
		beh.Self = c
		in.Extra = append(in.Extra, c)
		in.IDs[reflect.ValueOf(c).Pointer()] = id
		return id
	}
	if b.CfgA {
		c := &CfgA{}
		c.B = &zoo.Beh{Alias: "cfg-a", Mask: "m0"}
		bu.cfgIDs = append(bu.cfgIDs, addExtra(c, c.B))
	}
	if b.CfgB {
		c := &CfgB{}
		c.B = &zoo.Beh{Alias: "cfg-b", Mask: "m0"}
		bu.cfgIDs = append(bu.cfgIDs, addExtra(c, c.B))
	}
	if b.QPair {
		q := "red"
		for _, f := range faults {
			if f.Kind == "unsat-qual" {
				q = "blue" // the only candidate now carries another qualifier: the required point is unsatisfiable
			}
		}
		h, d := &QHolder{}, &QDep{}
		h.B = &zoo.Beh{Alias: "q-holder", Mask: "m0"}
		d.B = &zoo.Beh{Alias: "q-dep", Mask: q}
		addExtra(h, h.B)
		addExtra(d, d.B)
	}
	if b.Mix {
		h, d1, d2 := &TwoMix{}, &MixDbConn{}, &MixCacheConn{}
		h.B = &zoo.Beh{Alias: "two-mix", Mask: "m0"}
		d1.B = &zoo.Beh{Alias: "mix-db", Mask: "m0"}
		d2.B = &zoo.Beh{Alias: "mix-cache", Mask: "m0"}
		addExtra(h, h.B)
		drop := -1
		for _, f := range faults {
			if f.Kind == "unsat-mix" {
				drop = f.A // that provider is not registered: the required point of its type is unsatisfiable
			}
		}
		if drop != 0 {
			addExtra(d1, d1.B)
		}
		if drop != 1 {
			addExtra(d2, d2.B)
		}
	}
	for i := 0; i < b.Runners; i++ {
		r := &Runner{}
		r.B = &zoo.Beh{Alias: fmt.Sprintf("runner-%d", i), Mask: "m0"}
		if (i+b.ObsKind)%3 == 1 {
			mr := &MarkerRunner{}
			mr.B = r.B
			r = &mr.Runner
			bu.runners = append(bu.runners, addExtra(mr, r.B))
		} else {
			bu.runners = append(bu.runners, addExtra(r, r.B))
		}
		for _, f := range faults {
			if f.Kind == "run" && f.A == i {
				r.B.FailRun = 1
			}
			if f.Kind == "init" && f.A == 1000+i {
				r.B.FailInit = zoo.FailAlways
			}
		}
	}
	for k := 0; k < b.Obs; k++ {
		o := &graph.ObsPP{Tag: fmt.Sprintf("o%d", k), Log: in.Log, IDOf: idOf}
		for _, f := range faults {
			if f.A != k {
				continue
			}
			switch f.Kind {
			case "pp-before":
				o.FailBefore = f.Name
			case "pp-after", "pp-after-subst":
				o.FailAfter = f.Name
				// (the observer rejects the substitute as such: the registered object itself would pass)
				o.FailAfterSubstituteOnly = f.Kind == "pp-after-subst"
			case "pp-inst":
				o.FailInst = f.Name
			case "pp-early":
				o.FailEarly = f.Name
			case "pp-props":
				o.FailProps = f.Name
			case "pp-beforeinst":
				o.FailBeforeInst = f.Name
			}
		}
		bu.obs = append(bu.obs, o)
		switch (k + b.ObsKind) % 4 {
		case 3:
			// the Priority marker without Order: an unordered participant
			in.Extra = append(in.Extra, &graph.MarkerObsPP{ObsPP: *o})
			bu.obs[len(bu.obs)-1] = &in.Extra[len(in.Extra)-1].(*graph.MarkerObsPP).ObsPP
		case 1:
			o.OrderV = 1 // ordered, ahead of the built-in wiring processors
			in.Extra = append(in.Extra, &graph.OrderedObsPP{ObsPP: *o})
			bu.obs[len(bu.obs)-1] = &in.Extra[len(in.Extra)-1].(*graph.OrderedObsPP).ObsPP
		case 2:
			o.OrderV = 1 // priority-ordered, ahead of the built-in configuration processors
			in.Extra = append(in.Extra, &graph.PriorityObsPP{ObsPP: *o})
			bu.obs[len(bu.obs)-1] = &in.Extra[len(in.Extra)-1].(*graph.PriorityObsPP).ObsPP
		default:
			in.Extra = append(in.Extra, o)
		}
	}
	var substPP *graph.WrapPP
	// an observer rejects ONE name after initialization: of several such faults on one observer the last one is in
	// force, and only its component is substituted (a substituted component whose rejection never fires would change
	// what gets created at all)
	effSubst := map[int]string{}
	for _, f := range faults {
		if f.Kind == "pp-after-subst" || f.Kind == "pp-after" {
			effSubst[f.A] = f.Name
		}
	}
	for _, f := range faults {
		if f.Kind == "unsat-uninjectable" {
			var c any
			bh := &zoo.Beh{Alias: fmt.Sprintf("bad-point-%d", f.A), Mask: "m0"}
			switch f.A {
			case 0:
				c = &BadStruct{Core: zoo.Core{B: bh}}
			case 1:
				c = &BadMap{Core: zoo.Core{B: bh}}
			case 2:
				c = &BadSliceVal{Core: zoo.Core{B: bh}}
			case 4:
				c = &BadArray{Core: zoo.Core{B: bh}}
			case 5:
				c = &BadFuncArray{Core: zoo.Core{B: bh}}
			case 6:
				// a post-processor component whose required point has no candidate (QDep is registered with q-pairs only)
				c = &PPHolder{Core: zoo.Core{B: bh}}
			default:
				c = &BadNamedSlice{Core: zoo.Core{B: bh}}
			}
			addExtra(c, bh)
			bu.fired++ // structural: the required point can never be satisfied
		}
		if f.Kind == "pp-after-subst" && effSubst[f.A] == f.Name {
			// the component is substituted before instantiation; observer f.A rejects the substitute after initialization
			if substPP == nil {
				substPP = &graph.WrapPP{Plan: map[string]graph.WrapPlan{}, IDOf: idOf}
				in.Extra = append(in.Extra, substPP)
			}
			substPP.Plan[f.Name] = graph.WrapPlan{Inst: graph.WrapNew}
			bu.subst[f.Name] = true
		}
	}
	fpp := &FactoryPP{fired: &bu.fired}
	fpp.B = &zoo.Beh{Alias: "factory-pp", Mask: "m0"}
	for _, f := range faults {
		if f.Kind == "init" && f.A == 2000 {
			fpp.B.FailInit = zoo.FailAlways
		}
		if f.Kind == "aps" && f.A == 2000 {
			fpp.B.FailAPS = zoo.FailAlways
		}
	}
	for _, f := range faults {
		switch f.Kind {
		case "factory-pp":
			fpp.failFactory = true
		case "scanner":
			fpp.rejectName = f.Name
		case "scanner-all":
			fpp.rejectAll = true
		}
	}
	addExtra(fpp, fpp.B)
	for j := 0; j < b.Loaders; j++ {
		l := &FLoader{fired: &bu.fired}
		if j == 0 {
			l.data = yamlFor(missing)
		} else {
			l.data = []byte("c09:\n  extra:\n    k: v\n")
		}
		for _, f := range faults {
			if f.Kind == "loader" && f.A == j {
				l.fail = true
			}
			if f.Kind == "loader-garbage" && f.A == j {
				l.data = []byte("c09: [unclosed\n\tbad: : :\n") // not YAML: merging it must fail the start
				bu.fired++
			}
		}
		bu.loaders = append(bu.loaders, l)
	}
	return bu
}

func (bu *built) run() {
	ls := make([]configure.Loader, len(bu.loaders))
	for i, l := range bu.loaders {
		if (i+len(bu.runners))%3 == 2 {
			ls[i] = &MarkerLoader{FLoader: *l} // a copy: counters are shared through the fired pointer
			continue
		}
		ls[i] = l
	}
	bu.in.Run(app.SetConfigLoader(ls...))
}

// sites enumerates every fault site of the base.
func sites(b *Base) []Site {
	probe := build(b, nil)
	var out []Site
	var names []string
	for i, n := range b.S.Nodes {
		out = append(out, Site{Kind: "aps", A: i}, Site{Kind: "init", A: i})
		nm, _ := model.NameOf(probe.in.Comps[i])
		names = append(names, nm)
		if n.Variant == 'R' || n.Variant == 'F' {
			out = append(out, Site{Kind: "unsat-qs", A: i}, Site{Kind: "unsat-nx", A: i})
		}
	}
	if b.CfgA {
		names = append(names, "cfg-a")
	}
	if b.CfgB {
		names = append(names, "cfg-b")
	}
	for i := 0; i < b.Runners; i++ {
		out = append(out, Site{Kind: "run", A: i}, Site{Kind: "init", A: 1000 + i})
		names = append(names, fmt.Sprintf("runner-%d", i))
	}
	for k := 0; k < b.Obs; k++ {
		for _, nm := range names {
			for _, kind := range []string{"pp-before", "pp-after", "pp-inst", "pp-early", "pp-props", "pp-beforeinst"} {
				out = append(out, Site{Kind: kind, A: k, Name: nm})
			}
		}
	}
	for k := 0; k < b.Obs; k++ {
		for i, n := range b.S.Nodes {
			if n.Variant != 'N' { // a *T field cannot hold a substitute: only nodes nobody references by pointer type
				out = append(out, Site{Kind: "pp-after-subst", A: k, Name: names[i]})
			}
		}
	}
	for v := 0; v < 7; v++ {
		if v == 6 && b.QPair {
			continue // a QDep exists: the post-processor's point is satisfiable
		}
		if v == 4 || v == 5 {
			// fixed-size arrays are outside what the statement covers (a container may refuse or fill them): only the
			// optional array point of cfg-a stays in the scenarios - whatever happens to it, Run neither panics nor fails
			continue
		}
		out = append(out, Site{Kind: "unsat-uninjectable", A: v})
	}
	for j := 0; j < b.Loaders; j++ {
		out = append(out, Site{Kind: "loader", A: j}, Site{Kind: "loader-garbage", A: j})
	}
	out = append(out, Site{Kind: "factory-pp"}, Site{Kind: "init", A: 2000}, Site{Kind: "aps", A: 2000})
	names = append(names, "factory-pp")
	if b.QPair {
		out = append(out, Site{Kind: "unsat-qual"})
		names = append(names, "q-holder", "q-dep")
	}
	for _, nm := range names {
		out = append(out, Site{Kind: "scanner", Name: nm})
	}
	out = append(out, Site{Kind: "scanner-all"})
	if b.Mix {
		out = append(out, Site{Kind: "unsat-mix", A: 0}, Site{Kind: "unsat-mix", A: 1})
	}
	var keys []string
	for k, owner := range cfgKeys {
		if ownerOn(b, owner) {
			keys = append(keys, k)
		}
	}
	sort.Strings(keys)
	for _, k := range keys {
		out = append(out, Site{Kind: "cfg-missing", Name: k})
	}
	return out
}

type fataler interface{ Fatalf(string, ...any) }

// decide runs base+faults and applies the oracle.
func decide(t fataler, b *Base, faults []Site) {
	bu := build(b, faults)
	bu.run()
	in := bu.in
	desc := fmt.Sprintf("%s faults=%v", b, faults)
	if in.Out.Panic != nil {
		if be, ok := in.Out.Panic.(graph.BudgetExceeded); ok {
			t.Fatalf("C09: start-up hangs (step budget): %v\n%s", be, desc)
		}
		t.Fatalf("C09: Run panicked instead of returning an error: %v\n%s", in.Out.Panic, desc)
	}
	// which faults fired?
	firedEarly, firedRun := 0, 0
	var firedWhere []string
	ev := in.Log.Snapshot()
	firstCreated := -2
	for _, e := range ev {
		if (e.Kind == "aps" || e.Kind == "init" || e.Kind == "before") && firstCreated == -2 && e.ID >= 0 {
			firstCreated = e.ID
		}
	}
	notFirst := false
	all := append(append([]any{}, in.Comps...), in.Extra...)
	for _, c := range all {
		n, ok := c.(zoo.INode)
		if !ok {
			continue
		}
		bh := n.Beh()
		if bh.FailAPS != 0 && bh.APSCalls > 0 {
			firedEarly++
			firedWhere = append(firedWhere, fmt.Sprintf("aps(%d)", bh.ID))
			notFirst = notFirst || bh.ID != firstCreated
		}
		if bh.FailInit != 0 && bh.InitCalls > 0 && !(bh.FailAPS != 0) {
			firedEarly++
			firedWhere = append(firedWhere, fmt.Sprintf("init(%d)", bh.ID))
			notFirst = notFirst || bh.ID != firstCreated
		}
		if bh.FailRun != 0 && bh.RunCalls > 0 {
			firedRun++
			firedWhere = append(firedWhere, fmt.Sprintf("run(%d)", bh.ID))
		}
	}
	for _, o := range bu.obs {
		for _, e := range ev {
			if e.Note != o.Tag {
				continue
			}
			if (e.Kind == "before" && e.Name == o.FailBefore) || (e.Kind == "after" && e.Name == o.FailAfter) ||
				(e.Kind == "inst" && e.Name == o.FailInst) || (e.Kind == "early" && e.Name == o.FailEarly) ||
				(e.Kind == "props" && e.Name == o.FailProps) || (e.Kind == "beforeinst" && e.Name == o.FailBeforeInst) {
				firedEarly++
				firedWhere = append(firedWhere, e.Kind+"@"+e.Name)
				notFirst = notFirst || e.ID != firstCreated
			}
		}
	}
	firedEarly += bu.fired
	if bu.fired > 0 {
		firedWhere = append(firedWhere, "loader/factory-pp/scanner")
	}
	// structural faults: ask the model (component points) and the key list (configuration)
	g := in.G
	verdict := g.WiringVerdict()
	cfgMissing := false
	for k := range bu.missing {
		owner := cfgKeys[k]
		if ownerOn(b, owner) {
			cfgMissing = true
		}
	}
	runs := 0
	for _, e := range ev {
		if e.Kind == "run" {
			runs++
		}
	}
	labels := []string{}
	for _, f := range faults {
		labels = append(labels, "site/"+f.Kind)
	}
	switch {
	case firedEarly > 0 || cfgMissing || verdict == model.MustFail:
		if in.Out.Err == nil {
			t.Fatalf("C09: a fault occurred before the runner phase (fired: %v, missing required config: %v, wiring verdict: %v) yet Run returned nil\n%s", firedWhere, cfgMissing, verdict, desc)
		}
		if runs != 0 {
			t.Fatalf("C09: start-up failed (%v) but %d application runner(s) were invoked\n%s", in.Out, runs, desc)
		}
		labels = append(labels, "failed-cleanly")
	case firedRun > 0:
		if in.Out.Err == nil {
			t.Fatalf("C09: a runner returned an error yet Run returned nil\n%s", desc)
		}
		labels = append(labels, "runner-failed")
	case verdict == model.Either:
		labels = append(labels, "either")
	default:
		if in.Out.Err != nil {
			t.Fatalf("C09: no fault fired and every required point is satisfiable, yet Run failed: %v\n%s", in.Out, desc)
		}
		for _, id := range bu.runners {
			if bh := all[id].(zoo.INode).Beh(); bh.RunCalls != 1 {
				t.Fatalf("C09: runner %d ran %d times in a clean start\n%s", id, bh.RunCalls, desc)
			}
		}
		// a clean start really went through every eager component's initialisation
		must, _ := g.Created()
		for _, c := range all {
			n, ok := c.(zoo.INode)
			if !ok {
				continue
			}
			if mc := g.Find(c); mc != nil && must[mc] && !bu.subst[mc.Name] && n.Beh().InitCalls != 1 {
				t.Fatalf("C09: Run returned nil but the eagerly created component %s ran Init %d times (a failing callback there could never be reported)\n%s", mc.Name, n.Beh().InitCalls, desc)
			}
		}
		// unsatisfied optional points are zero and harmless
		if err := graph.CheckWiring(g, false); err != nil {
			t.Fatalf("C09: %v\n%s", err, desc)
		}
		for _, c := range in.Extra {
			switch x := c.(type) {
			case *CfgA:
				if x.Opt != "" || x.OptPre != nil || x.OptW != nil || x.Opt0 != nil || x.OptV0 != "" {
					t.Fatalf("C09: optional unsatisfied points of cfg-a are not zero: %+v\n%s", x, desc)
				}
				if x.Host != "example.org" || x.Port != 8080 || x.Pre != (Pre{3, "why"}) {
					t.Fatalf("C09: required configuration of cfg-a not bound: %+v\n%s", x, desc)
				}
			case *CfgB:
				if x.OptP != nil {
					t.Fatalf("C09: optional unsatisfied prefix of cfg-b is not zero\n%s", desc)
				}
				if x.Name != "bee" || x.Limit != 7 {
					t.Fatalf("C09: configuration of cfg-b not bound: %+v\n%s", x, desc)
				}
			}
		}
		labels = append(labels, "clean-start")
		if len(faults) > 0 {
			labels = append(labels, "fault-did-not-fire")
		}
	}
	nt := (firedEarly > 0 && notFirst) || len(faults) >= 2 || cfgMissing || (len(faults) > 0 && verdict == model.MustFail)
	kit.Rec.Case(desc, nt, dedup(labels)...)
}

func dedup(xs []string) []string {
	m := map[string]bool{}
	var out []string
	for _, x := range xs {
		if !m[x] {
			m[x] = true
			out = append(out, x)
		}
	}
	return out
}

func genBase(t *rapid.T) *Base {
	s := graph.Gen(t, graph.GenOpts{MinNodes: 2, MaxNodes: 5, Variants: "NNNLP", Aliases: true})
	// place required variants where satisfiable so that the base starts
	in := s.Instantiate()
	reg := map[string]any{}
	for _, c := range in.Comps {
		n, _ := model.NameOf(c)
		reg[n] = c
	}
	g := model.Build(model.Population(reg, in.IDs))
	for i := range s.Nodes {
		if s.Nodes[i].Variant != 'N' {
			continue
		}
		c := g.Find(in.Comps[i])
		sat := true
		for _, p := range g.Points[c] {
			if (p.Field.Name == "QS" || p.Field.Name == "Nx") && !p.Satisfiable() {
				sat = false
			}
		}
		if sat && rapid.Bool().Draw(t, "req") {
			s.Nodes[i].Variant = 'R'
			if rapid.IntRange(0, 2).Draw(t, "embeddedreq") == 0 {
				s.Nodes[i].Variant = 'F' // the required points sit in embedded structs, one of them with an unexported type name
			}
		}
	}
	return &Base{S: s, CfgA: rapid.Bool().Draw(t, "cfga"), CfgB: rapid.Bool().Draw(t, "cfgb"),
		QPair: rapid.Bool().Draw(t, "qpair"), Mix: rapid.Bool().Draw(t, "mix"), ObsKind: rapid.IntRange(0, 3).Draw(t, "obskind"), Runners: rapid.IntRange(1, 3).Draw(t, "runners"), Loaders: rapid.IntRange(1, 2).Draw(t, "loaders"), Obs: rapid.IntRange(0, 2).Draw(t, "obs")}
}

// TestSingleFaults: for each drawn base, the clean run and EVERY single fault site.
func TestSingleFaults(t *testing.T) {
	kit.Rec.Rule(rule)
	rapid.Check(t, func(t *rapid.T) {
		b := genBase(t)
		decide(t, b, nil)
		for _, s := range sites(b) {
			decide(t, b, []Site{s})
		}
	})
}

// TestFaultPairs: for each drawn base, all pairs of sites (bounded) .
func TestFaultPairs(t *testing.T) {
	kit.Rec.Rule(rule)
	rapid.Check(t, func(t *rapid.T) {
		b := genBase(t)
		ss := sites(b)
		maxPairs := 400
		if kit.Tier() == "quick" {
			maxPairs = 40
		}
		n := 0
		stride := 1
		if total := len(ss) * (len(ss) - 1) / 2; total > maxPairs {
			stride = total/maxPairs + 1
		}
		k := rapid.IntRange(0, stride-1).Draw(t, "offset")
		for i := 0; i < len(ss); i++ {
			for j := i + 1; j < len(ss); j++ {
				if k%stride == 0 {
					decide(t, b, []Site{ss[i], ss[j]})
					n++
				}
				k++
			}
		}
	})
}
